#!/usr/bin/env python3
"""Write /verif/seeded/<id>/meta.json from the evaluation logs (tools/seed_eval.sh)."""
import json, os, re, sys
root = '/verif/seeded'
rows = []
for d in sorted(os.listdir(root)):
    p = os.path.join(root, d)
    if not os.path.isdir(p) or not os.path.exists(os.path.join(p, 'eval.log')):
        continue
    log = open(os.path.join(p, 'eval.log')).read()
    notes = open(os.path.join(p, 'notes.md')).read() if os.path.exists(os.path.join(p, 'notes.md')) else ''
    prop = d.split('-')[0]
    checks = {}
    for m in re.finditer(r'check_(C\d+) exit=(\d+) (\d+) violation lines, (\d+) undecided', log):
        c = m.group(1)
        viol = []
        lf = os.path.join(p, f'check_{c}.log')
        if os.path.exists(lf):
            for line in open(lf):
                if line.startswith('  harness='):
                    viol.append(line.strip()[:300])
        checks[c] = {"exit": int(m.group(2)), "violation_lines": int(m.group(3)), "undecided": int(m.group(4)), "violations": viol[:6]}
    confirmed = ('suite_with_change=pass' in log and 'demo_with_change=fail' in log and 'demo_without_change=pass' in log)
    caught = [c for c, v in checks.items() if v['exit'] == 1 and v['violation_lines'] > 0]
    meta = {
        "breaks_property": prop,
        "variant": d,
        "what_it_needs_to_manifest": notes.strip()[:1500],
        "confirmed_by_me": confirmed,
        "what_i_ran": "tools/seed_eval.sh in the scratch worktree %s: git apply patch.diff; go build ./... && go test -vet=off -count=1 ./... (must pass); demo test copied in and run (must fail); VP_REPO=<worktree> ./bin/gosym check <ids> (quick tier) with the change applied; change reverted; demo run again (must pass)" % (('/tmp/wt-' if d.endswith('-C') else '/tmp/vp-seed-') + prop),
        "evaluation_log": log.strip().split('\n'),
        "checks": checks,
        "caught_by": caught,
    }
    json.dump(meta, open(os.path.join(p, 'meta.json'), 'w'), indent=1)
    rows.append((d, confirmed, caught, {c: (v['exit'], v['violation_lines'], v['undecided']) for c, v in checks.items()}))
for r in rows:
    print(r)
