#!/bin/bash
# usage: [WT=<worktree>] seed_eval.sh <Cxx> <A|B> <demo package dir relative to repo root, or .> [check ids...]
# Confirms a seeded change in its scratch worktree (suite passes with it, demo fails with it, demo
# passes without it), then runs the given checks (default: the property's own) against the
# worktree with the change applied, and stores the artefacts under /verif/seeded/<Cxx>-<X>/.
set -u
pid=$1; x=$2; ddir=$3; shift 3
checks=${@:-$pid}
wt=${WT:-/tmp/vp-seed-$pid}
out=/verif/seeded/$pid-$x
export GOFLAGS=-mod=mod GOPROXY=off GOSUMDB=off GOTOOLCHAIN=local
cd $wt || exit 2
git checkout -q -- . && git clean -fdq -e _seed
# round-2 agents deliver _seed/patch.diff, demo_test.go, notes.md: give them the <X>-prefixed names
[ -f _seed/$x.diff ] || cp _seed/patch.diff _seed/$x.diff
[ -f _seed/${x}_demo_test.go ] || cp _seed/demo_test.go _seed/${x}_demo_test.go
[ -f _seed/$x.md ] || cp _seed/notes.md _seed/$x.md 2>/dev/null
mkdir -p $out
cp _seed/$x.diff $out/patch.diff
cp _seed/${x}_demo_test.go $out/demo_test.go
cp _seed/$x.md $out/notes.md 2>/dev/null
res() { echo "$1" | tee -a $out/eval.log; }
: > $out/eval.log
git apply _seed/$x.diff || { res "APPLY-FAILED"; exit 1; }
go build ./... >/dev/null 2>&1 && b=ok || b=FAIL
go test -vet=off -count=1 ./... > $out/suite_with_change.log 2>&1 && s=pass || s=FAIL
res "build_with_change=$b suite_with_change=$s"
cp _seed/${x}_demo_test.go $ddir/zz_seed_demo_test.go
go test -vet=off -count=1 ./$ddir/ > $out/demo_with_change.log 2>&1 && d1=pass || d1=fail
res "demo_with_change=$d1 (expected fail)"
# checks against the worktree with the change applied (demo removed again)
rm -f $ddir/zz_seed_demo_test.go
for c in $checks; do
  ( cd /verif && VP_REPO=$wt timeout 3000 ./bin/gosym check $c > $out/check_$c.log 2>&1; echo "check_$c exit=$? $(grep -c '^VIOLATION' $out/check_$c.log) violation lines, $(grep -c '^UNDECIDED' $out/check_$c.log) undecided" ) | tee -a $out/eval.log
done
git checkout -q -- . && git clean -fdq -e _seed
cp _seed/${x}_demo_test.go $ddir/zz_seed_demo_test.go
go test -vet=off -count=1 ./$ddir/ > $out/demo_without_change.log 2>&1 && d2=pass || d2=fail
res "demo_without_change=$d2 (expected pass)"
rm -f $ddir/zz_seed_demo_test.go
git checkout -q -- . && git clean -fdq -e _seed
