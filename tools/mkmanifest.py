#!/usr/bin/env python3
"""Regenerate /verif/MANIFEST.json from checks.json (claimed checks) and na.json (not applicable)."""
import json, os
root = os.path.dirname(os.path.dirname(os.path.abspath(__file__)))
props = [json.loads(l) for l in open(os.path.join(root, 'properties.jsonl'))]
checks = json.load(open(os.path.join(root, 'checks.json')))
na = json.load(open(os.path.join(root, 'na.json'))) if os.path.exists(os.path.join(root, 'na.json')) else {}
m = {
 "version": 1,
 "setup_cmd": "cd /verif/engine && GOFLAGS=-mod=mod GOPROXY=off GOSUMDB=off GOTOOLCHAIN=local go build -o /verif/bin/gosym .",
 "hooks": {"guard": "verif",
           "enable": "harness files /verif/harness/**/zz_vp_*.go (first line //go:build verif) are injected into the package directories through go/packages Overlay (engine) and `go test -tags verif -overlay` (native replay); nothing is written into /repo",
           "baseline_off_cmd": "cd /repo && GOFLAGS=-mod=mod go test -vet=off -count=1 -timeout 25m ./...",
           "source_commits": [], "add_only": True},
 "engines": [{"name": "gosym", "path": "/verif/engine", "serves_properties": sorted(checks.keys()),
              "kind_free_text": "symbolic executor over go/ssa of the current /repo tree -> SMT-LIB2 (QF bit-vectors + arrays + UF) decided by z3 5.1 (z3-new); counterexamples replayed natively with go test -overlay"}],
 "checks": [], "not_applicable": [],
 "notes": "All checks: bounded symbolic execution of the real code (regenerated from /repo on every run). VIOLATION lines are printed only for counterexamples that reproduce natively; engine-side trouble is printed as UNDECIDED and listed in the evidence."}
for p in props:
    pid = p['id']
    if pid in checks:
        c = checks[pid]
        m['checks'].append({
            "property_id": pid,
            "quick_cmd": f"cd /verif && ./bin/gosym check {pid} --tier quick",
            "thorough_cmd": f"cd /verif && ./bin/gosym check {pid} --tier thorough",
            "evidence_file": f"/verif/evidence/{pid}.json",
            "replay_cmd_template": "cd /verif && ./bin/gosym replay {path}",
            "engine": "gosym",
            "level_claimed": {"category": "model_checking",
                              "text": c.get('level_text', "bounded symbolic model checking of the real code: every feasible path of the harness over the SSA of the current tree is explored, every assertion and panic site is a solver obligation (unsat = holds for all inputs within the stated bounds); sat models are replayed against the native build before they are reported"),
                              "design_ref": c.get('design_ref', "DESIGN.md Part I (I.4 status, I.7 seeded changes) and Part II section 4, " + pid)},
            "level_note": "; ".join(c.get('assumptions', [])) + " | outside the claim: " + "; ".join(c.get('outside', [])) + " | bounds quick=" + json.dumps(c.get('quick', {})) + " thorough=" + json.dumps(c.get('thorough', {})),
            "technique": c.get('technique', "symbolic execution of go/ssa to SMT (bit-vectors, arrays, UF), z3; native replay of models"),
        })
    else:
        m['not_applicable'].append({"property_id": pid, "reason": na.get(pid, "check not built yet (build in progress; see DESIGN.md)")})
json.dump(m, open(os.path.join(root, 'MANIFEST.json'), 'w'), indent=1)
print("checks:", [c['property_id'] for c in m['checks']], "na:", len(m['not_applicable']))
