//go:build verif

package tacquito

// Export shim for harnesses that live in the reference-server packages (which import this
// package and therefore cannot be imported back).  Forwarding only.

import (
	"context"
	"net"
)

type VPConn = vpConn
type VPCtx = vpCtx

func VPNewConn(in []byte) *VPConn { return newVPConn(in) }
func VPNewCtx() *VPCtx            { return newVPCtx() }

func (c *vpConn) Out() [][]byte    { return c.out }
func (c *vpConn) Closes() int      { return c.closes }
func (c *vpConn) Reads() int       { return c.reads }
func (c *vpConn) SetHook(f func()) { c.hook = f }
func (c *vpCtx) Cancel()           { c.cancel() }

// VPHandle runs the real connection loop on conn with handler h.
func VPHandle(ctx context.Context, conn net.Conn, secret []byte, l loggerProvider, h Handler) {
	s := NewServer(l, nil)
	s.handle(ctx, newCrypter(secret, conn, false), h)
}

// VPServe runs the real per-connection entry point (admission + loop).
func VPServe(ctx context.Context, conn net.Conn, l loggerProvider, sp SecretProvider) {
	s := NewServer(l, sp)
	s.Add(1)
	s.serve(ctx, conn)
}

func VPHeaderBytes(minor, typ, seq, flags uint8, sid uint32, ln int) []byte {
	return vpHeaderBytes(minor, typ, seq, flags, sid, ln)
}

func VPPad(sid uint32, key []byte, version, seq byte, n int) []byte {
	return vpPad(sid, key, version, seq, n)
}
