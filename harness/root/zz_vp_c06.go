//go:build verif

package tacquito

// C06 — replies mirror the request: session, type, version, flags, seq+1, true length.
// Oracle on the raw bytes written (the library's own header decoder would set single-connect on
// sequence 2, so the flag octet is compared raw).  All header fields are fully symbolic.

func vpC06Reply(kind int, n int) (EncoderDecoder, []byte, bool) {
	// returns the reply value, its independently laid out cleartext body and whether it is RESTART
	msg := vpStrN(vpInt(0, n))
	vpAssume(vpIsASCII(msg))
	switch kind {
	case 0:
		st := uint8(vpInt(1, 7))
		fl := vpU8()
		body := []byte{st, fl, byte(len(msg) >> 8), byte(len(msg)), 0, 0}
		body = append(body, msg...)
		return NewAuthenReply(SetAuthenReplyStatus(AuthenStatus(st)), SetAuthenReplyFlag(AuthenReplyFlag(fl)), SetAuthenReplyServerMsg(msg)), body, st == 6
	case 1:
		st := []uint8{1, 2, 16, 17}[vpInt(0, 3)]
		arg := vpStrN(vpInt(2, 3))
		vpAssume(vpIsASCII(arg))
		body := []byte{st, 1, byte(len(msg) >> 8), byte(len(msg)), 0, 0, byte(len(arg))}
		body = append(body, msg...)
		body = append(body, arg...)
		return NewAuthorReply(SetAuthorReplyStatus(AuthorStatus(st)), SetAuthorReplyArgs(arg), SetAuthorReplyServerMsg(msg)), body, false
	}
	st := uint8(vpInt(1, 2))
	body := []byte{byte(len(msg) >> 8), byte(len(msg)), 0, 0, st}
	body = append(body, msg...)
	return NewAcctReply(SetAcctReplyStatus(AcctReplyStatus(st)), SetAcctReplyServerMsg(msg)), body, false
}

func vpH_C06_reply__3(kind int) {
	secret := vpBytesN(vpInt(0, vpBound("secret", 2)))
	minor := vpU8() & 1
	typ := uint8(vpInt(1, 3))
	seq := vpU8()
	vpAssume(seq >= 1)
	flags := vpU8()
	sid := vpU32()
	req := Header{Version: Version{MajorVersion: 0xc, MinorVersion: minor}, Type: HeaderType(typ), SeqNo: SequenceNumber(seq),
		SessionID: SessionID(sid), Flags: HeaderFlag(flags), Length: vpU32()}
	conn := newVPConn(nil)
	resp := &response{ctx: newVPCtx(), crypter: newCrypter(secret, conn, false), loggerProvider: &vpLogger{}, header: req}
	v, clear, restart := vpC06Reply(kind, vpBound("msg", 4))
	resp.Reply(v)
	if seq == 255 && !restart {
		vpReach("C06.reply.seq255")
		vpAssert(len(conn.out) == 0, "C06.no-reply-to-255")
		return
	}
	vpAssert(len(conn.out) == 1, "C06.exactly-one-write")
	if len(conn.out) != 1 {
		return
	}
	b := conn.out[0]
	vpAssert(len(b) == 12+len(clear), "C06.total-length")
	if len(b) != 12+len(clear) {
		return
	}
	wantSeq := seq + 1
	if restart {
		wantSeq = 1
	}
	vpAssert(b[0] == 0xc0|minor, "C06.version-mirrored")
	vpAssert(b[1] == typ, "C06.type-mirrored")
	vpAssert(b[2] == wantSeq, "C06.seq-plus-one")
	vpAssert(b[2] != 0, "C06.never-seq-zero")
	vpAssert(b[3] == flags, "C06.flags-mirrored-raw")
	vpAssert(b[4] == byte(sid>>24) && b[5] == byte(sid>>16) && b[6] == byte(sid>>8) && b[7] == byte(sid), "C06.session-mirrored")
	vpAssert(b[8] == 0 && b[9] == 0 && b[10] == byte(len(clear)>>8) && b[11] == byte(len(clear)), "C06.length-is-bytes-that-follow")
	if flags&1 != 0 {
		vpReach("C06.reply.clear")
		vpSameStrC(string(b[12:]), string(clear), "C06.body-clear-when-request-was")
	} else {
		vpReach("C06.reply.obfuscated")
		pad := vpPad(sid, secret, 0xc0|minor, wantSeq, len(clear))
		for i := 0; i < len(clear); i++ {
			vpAssert(b[12+i] == clear[i]^pad[i], "C06.body-obfuscated-with-reply-sequence")
		}
	}
	vpReach("C06.reply.end")
}

// through the loop: the response is seeded with the request header
func vpH_C06_loop() {
	sid := vpU32()
	seq := vpU8() | 1
	typ := uint8(vpInt(1, 3))
	flags := vpU8() | 1
	minor := vpU8() & 1
	in := vpHeaderBytes(minor, typ, seq, flags, sid, 0)
	conn := newVPConn(in)
	s := NewServer(&vpLogger{}, nil)
	s.handle(newVPCtx(), newCrypter([]byte("k"), conn, false), HandlerFunc(func(resp Response, req Request) {
		resp.Reply(NewAcctReply(SetAcctReplyStatus(AcctReplyStatusSuccess)))
	}))
	if seq == 255 {
		vpAssert(len(conn.out) == 0, "C06.loop.no-reply-to-255")
		return
	}
	vpAssert(len(conn.out) == 1, "C06.loop.one-reply")
	if len(conn.out) != 1 {
		return
	}
	b := conn.out[0]
	want := append(vpHeaderBytes(minor, typ, seq+1, flags, sid, 5), 0, 0, 0, 0, 1)
	vpSameStrC(string(b), string(want), "C06.loop.reply-bytes")
	vpReach("C06.loop.end")
}

// a reply that cannot be encoded is not sent and must not disturb the reply that follows it
func vpH_C06_failed_then_ok() {
	seq := vpU8()
	vpAssume(seq >= 1 && seq < 255)
	sid := vpU32()
	flags := vpU8() | 1
	req := Header{Version: Version{MajorVersion: 0xc, MinorVersion: vpU8() & 1}, Type: Authenticate, SeqNo: SequenceNumber(seq),
		SessionID: SessionID(sid), Flags: HeaderFlag(flags)}
	conn := newVPConn(nil)
	resp := &response{ctx: newVPCtx(), crypter: newCrypter([]byte("k"), conn, false), loggerProvider: &vpLogger{}, header: req}
	bad := vpInt(0, 1)
	if bad == 0 {
		resp.Reply(NewAuthenReply(SetAuthenReplyStatus(AuthenStatus(0)))) // invalid status: refused by the encoder
	} else {
		resp.Reply(NewAuthenReply(SetAuthenReplyStatus(AuthenStatusFail), SetAuthenReplyServerMsg(vpConstStr(70000, 'x'))))
	}
	vpAssert(len(conn.out) == 0, "C06.unencodable-reply-is-not-sent")
	resp.Reply(NewAuthenReply(SetAuthenReplyStatus(AuthenStatusError), SetAuthenReplyServerMsg("e")))
	vpAssert(len(conn.out) == 1, "C06.fallback-reply-sent")
	if len(conn.out) == 1 && len(conn.out[0]) >= 12 {
		vpAssert(conn.out[0][2] == seq+1, "C06.fallback-reply-is-seq-plus-one")
		vpAssert(conn.out[0][3] == flags, "C06.fallback-reply-mirrors-flags")
	}
	vpReach("C06.failed_then_ok.end")
}
