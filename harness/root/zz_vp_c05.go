//go:build verif

package tacquito

// C05 — packet framing is independent of how the TCP stream is segmented.
// A sender crypter writes k packets into a recording connection; the receiver's connection serves
// those bytes under a symbolic segmentation (every Read returns a symbolic number of bytes between
// 1 and what fits), optionally ending (EOF) or stalling (timeout) at a symbolic offset.

func vpH_C05_stream() {
	k := vpBound("c05packets", 1)
	secret := []byte("k")
	sender := newVPConn(nil)
	sc := newCrypter(secret, sender, false)
	type sent struct {
		typ, seq, flags uint8
		sid             uint32
		body            []byte
	}
	var pk []sent
	for i := 0; i < k; i++ {
		// a valid accounting REPLY body of free length keeps the key-mismatch detector (C19) quiet
		msg := vpStrN(vpInt(0, vpBound("c05body", 2)))
		vpAssume(vpIsASCII(msg))
		body := append([]byte{0, byte(len(msg)), 0, 0, 1}, msg...)
		p := sent{typ: 3, seq: vpU8(), flags: vpU8(), sid: vpU32(), body: body}
		vpAssume(p.seq >= 1)
		pk = append(pk, p)
		b := make([]byte, len(body))
		copy(b, body)
		h := &Header{Version: Version{MajorVersion: 0xc, MinorVersion: 0}, Type: HeaderType(p.typ), SeqNo: SequenceNumber(p.seq),
			SessionID: SessionID(p.sid), Flags: HeaderFlag(p.flags)}
		n0 := len(sender.out)
		_, err := sc.write(&Packet{Header: h, Body: b})
		vpAssert(err == nil, "C05.write-ok")
		vpAssert(len(sender.out) == n0+1, "C05.one-write-per-packet")
	}
	var stream []byte
	for _, w := range sender.out {
		stream = append(stream, w...)
	}
	rc := newVPConn(stream)
	rc.segment = true
	rc.maxReads = vpBound("c05reads", 5)
	if vpBool() {
		rc.cut = vpIntC(0, len(stream))
		rc.cutStall = vpBool()
	}
	r := newCrypter(secret, rc, false)
	got := 0
	for i := 0; i <= k; i++ {
		p, err := r.read()
		if err != nil {
			break
		}
		vpAssert(i < k, "C05.no-packet-beyond-what-was-sent")
		if i >= k {
			return
		}
		got++
		vpAssert(len(p.Body) == int(p.Header.Length), "C05.body-length-matches-header")
		vpAssert(byte(p.Header.Type) == pk[i].typ, "C05.type")
		vpAssert(byte(p.Header.SeqNo) == pk[i].seq, "C05.seq")
		vpAssert(uint32(p.Header.SessionID) == pk[i].sid, "C05.sid")
		vpSameStrC(string(p.Body), string(pk[i].body), "C05.cleartext-body")
	}
	// how many packets must have been delivered: those that lie completely before the cut
	end := len(stream)
	if rc.cut >= 0 && rc.cut < end {
		end = rc.cut
	}
	want, off := 0, 0
	for i := 0; i < k; i++ {
		off += 12 + len(pk[i].body)
		if off <= end {
			want++
		}
	}
	vpAssert(got == want, "C05.exactly-the-complete-packets-are-delivered")
	vpObserveInt("got", got)
	vpReach("C05.stream.end")
}

// a header announcing more than 65536 body bytes is refused at once
func vpH_C05_oversize() {
	ln := vpU32()
	vpAssume(ln > 65536)
	in := vpHeaderBytes(vpU8()&1, uint8(vpInt(1, 3)), vpU8()|1, vpU8(), vpU32(), 0)
	in[8], in[9], in[10], in[11] = byte(ln>>24), byte(ln>>16), byte(ln>>8), byte(ln)
	in = append(in, vpBytesN(vpInt(0, 4))...)
	rc := newVPConn(in)
	rc.segment = vpBool()
	rc.maxReads = vpBound("c05reads", 5)
	a0 := vpAllocBytes()
	p, err := newCrypter([]byte("k"), rc, false).read()
	a1 := vpAllocBytes()
	vpAssert(err != nil, "C05.oversize-refused")
	vpAssert(p == nil, "C05.oversize-no-packet")
	vpAssert(a1-a0 <= 8192, "C05.oversize-no-body-allocation")
	vpAssert(len(rc.out) == 0, "C05.oversize-nothing-written")
	// nothing is read beyond what the buffered reader fetched to complete the 12 header bytes
	vpAssert(rc.pos <= len(in), "C05.oversize-reads-bounded")
	vpReach("C05.oversize.end")
}

// two packets, the first one kept while the second is read: a delivered packet stays what it was
func vpH_C05_two() {
	secret := []byte("k")
	sender := newVPConn(nil)
	sc := newCrypter(secret, sender, false)
	var bodies [][]byte
	for i := 0; i < 2; i++ {
		msg := vpStrN(vpInt(0, 2))
		vpAssume(vpIsASCII(msg))
		body := append([]byte{0, byte(len(msg)), 0, 0, 1}, msg...)
		bodies = append(bodies, body)
		b := make([]byte, len(body))
		copy(b, body)
		h := &Header{Version: Version{MajorVersion: 0xc}, Type: Accounting, SeqNo: SequenceNumber(2*i + 1), SessionID: SessionID(vpU32()), Flags: HeaderFlag(vpU8())}
		_, err := sc.write(&Packet{Header: h, Body: b})
		vpAssert(err == nil, "C05.two.write-ok")
	}
	var stream []byte
	for _, w := range sender.out {
		stream = append(stream, w...)
	}
	rc := newVPConn(stream)
	if vpBool() {
		// deliver in two reads split at a symbolic offset
		rc.whole = []int{vpIntC(1, len(stream)-1), len(stream)}
	}
	r := newCrypter(secret, rc, false)
	p1, err1 := r.read()
	p2, err2 := r.read()
	vpAssert(err1 == nil && err2 == nil, "C05.two.both-delivered")
	if err1 != nil || err2 != nil {
		return
	}
	vpSameStrC(string(p1.Body), string(bodies[0]), "C05.two.first-packet-intact-after-second-read")
	vpSameStrC(string(p2.Body), string(bodies[1]), "C05.two.second-packet")
	vpAssert(p1.Header.SeqNo == 1 && p2.Header.SeqNo == 3, "C05.two.order")
	vpReach("C05.two.end")
}

// a stream that stalls past the read deadline in the middle of a packet and then goes on: the
// stall is an error for the packet being read, the connection is closed, nothing is re-framed
func vpH_C05_stall_resume() {
	_, in := vpStream(2)
	conn := newVPConn(in)
	conn.cut = vpIntC(0, len(in)-1)
	conn.cutStall = true
	conn.resume = true
	conn.maxReads = 12
	w := newVPWorld(conn)
	w.mode = vpReplyNoRestart
	s := NewServer(&vpLogger{}, nil)
	s.handle(newVPCtx(), newCrypter([]byte("k"), conn, false), &vpHandler{w: w, id: 0})
	vpAssert(conn.closes == 1, "C05.stall.connection-closed")
	vpAssert(conn.readsAfterTimeout == 0, "C05.stall.no-read-after-the-deadline-fired")
	// only packets that were complete before the stall may have been dispatched
	complete := 0
	if conn.cut >= 12 {
		complete = 1
	}
	if conn.cut >= 24 {
		complete = 2
	}
	vpAssert(len(w.invokes) <= complete, "C05.stall.no-packet-from-a-broken-frame")
	vpReach("C05.stall.end")
}
