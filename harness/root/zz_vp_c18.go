//go:build verif

package tacquito

// C18 (shared secret part): the connection's secret never reaches the logger, on valid,
// malformed and key-mismatch requests alike.

import "context"

type vpScanLogger struct {
	secret string
	leaks  int
	calls  int
}

func (l *vpScanLogger) scan(v interface{}) {
	if vpLeaks(v, l.secret) {
		l.leaks++
		vpAssert(false, "C18.secret-leak")
	}
}
func (l *vpScanLogger) emit(format string, args []interface{}) {
	l.calls++
	l.scan(format)
	for _, a := range args {
		l.scan(a)
	}
}
func (l *vpScanLogger) Infof(ctx context.Context, format string, args ...interface{}) {
	l.emit(format, args)
}
func (l *vpScanLogger) Errorf(ctx context.Context, format string, args ...interface{}) {
	l.emit(format, args)
}
func (l *vpScanLogger) Debugf(ctx context.Context, format string, args ...interface{}) {
	l.emit(format, args)
}
func (l *vpScanLogger) Record(ctx context.Context, r map[string]string, obscure ...string) {
	l.calls++
	for k, v := range r {
		hidden := false
		for _, o := range obscure {
			if o == k {
				hidden = true
			}
		}
		if !hidden {
			l.scan(v)
		}
	}
}

func vpH_C18_secret() {
	secret := vpBytesN(6)
	lg := &vpScanLogger{secret: string(secret)}
	typ := uint8(vpInt(1, 3))
	seq := vpU8()
	sid := vpU32()
	// the cleartext the server will see is free (valid, malformed, or the garbage a wrong key
	// produces); the wire bytes follow from it
	clear := vpBytesN(vpInt(0, vpBound("c18bytes", 8)))
	if typ == 2 && len(clear) > 7 {
		vpAssume(clear[7] <= 1)
	}
	if typ == 2 && len(clear) > 1 {
		vpAssume(clear[1] <= 1)
	}
	if typ == 3 && len(clear) > 8 {
		vpAssume(clear[8] <= 1)
	}
	wire := make([]byte, len(clear))
	pad := vpPad(sid, secret, 0xc0, seq, len(clear))
	for i := range wire {
		wire[i] = clear[i] ^ pad[i]
	}
	in := append(vpHeaderBytes(0, typ, seq, vpU8()&0xfe, sid, len(wire)), wire...)
	conn := newVPConn(in)
	s := NewServer(lg, nil)
	s.handle(newVPCtx(), newCrypter(secret, conn, false), HandlerFunc(func(resp Response, req Request) {
		resp.Reply(NewAcctReply(SetAcctReplyStatus(AcctReplyStatusSuccess)))
	}))
	vpAssert(lg.leaks == 0, "C18.secret-never-logged")
	vpReach("C18.secret.end")
}
