//go:build verif

package tacquito

// Shared harness helpers (pure; the engine merges their paths into one term).

func vpImp(a, b bool) bool {
	if a {
		return b
	}
	return true
}

func vpAnd(a, b bool) bool {
	if a {
		return b
	}
	return false
}

func vpOr(a, b bool) bool {
	if a {
		return true
	}
	return b
}

func vpAt(b []byte, i int) byte {
	if i >= 0 && i < len(b) {
		return b[i]
	}
	return 0
}

func vpAtS(s string, i int) byte {
	if i >= 0 && i < len(s) {
		return s[i]
	}
	return 0
}

func vpIsASCII(s string) bool {
	for i := 0; i < len(s); i++ {
		if s[i] > 127 {
			return false
		}
	}
	return true
}

// vpSameAt asserts out[off:off+len(f)] == f using one fresh symbolic index (covers all positions).
func vpSameAt(out []byte, off int, f string, max int, id string) {
	i := vpInt(0, max)
	vpAssert(vpImp(i < len(f), vpAt(out, off+i) == vpAtS(f, i)), id)
}

// vpSameStr asserts a == b as byte strings with one fresh index.
func vpSameStr(a, b string, max int, id string) {
	vpAssert(len(a) == len(b), id+".len")
	i := vpInt(0, max)
	vpAssert(vpImp(vpAnd(i < len(a), i < len(b)), vpAtS(a, i) == vpAtS(b, i)), id)
}

func vpIdx(n int) int {
	return vpInt(0, n-1)
}

// vpArgListN: like vpArgList with concretised lengths (decode-direction harnesses).
func vpArgListN(maxN, maxLen int) Args {
	n := vpInt(0, maxN)
	var args Args
	for i := 0; i < n; i++ {
		args = append(args, Arg(vpStrN(vpInt(0, maxLen))))
	}
	return args
}

// vpArgList: 0..maxN arguments of 0..maxLen free bytes each.
func vpArgList(maxN, maxLen int) Args {
	n := vpInt(0, maxN)
	var args Args
	for i := 0; i < n; i++ {
		args = append(args, Arg(vpStr(maxLen)))
	}
	return args
}

func vpInSet(v uint8, set ...uint8) bool {
	for _, s := range set {
		if v == s {
			return true
		}
	}
	return false
}

// vpSameStrC asserts a == b byte by byte with a concrete loop; for harnesses whose lengths are
// concretised (every comparison then folds or is a small query).
func vpSameStrC(a, b string, id string) {
	vpAssert(len(a) == len(b), id+".len")
	for i := 0; i < len(a) && i < len(b); i++ {
		vpAssert(a[i] == b[i], id)
	}
}
