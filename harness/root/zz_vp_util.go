//go:build verif

package tacquito

// Root-package harness helpers.

// vpArgListN: like vpArgList with concretised lengths (decode-direction harnesses).
func vpArgListN(maxN, maxLen int) Args {
	n := vpInt(0, maxN)
	var args Args
	for i := 0; i < n; i++ {
		args = append(args, Arg(vpStrN(vpInt(0, maxLen))))
	}
	return args
}

// vpArgList: 0..maxN arguments of 0..maxLen free bytes each.
func vpArgList(maxN, maxLen int) Args {
	n := vpInt(0, maxN)
	var args Args
	for i := 0; i < n; i++ {
		args = append(args, Arg(vpStr(maxLen)))
	}
	return args
}
