//go:build verif

package tacquito

// Connection-loop harness infrastructure: scripted handlers with a ghost model of the session
// rules, used by C06 (loop level), C07-L1, C08, C19, C20.

import (
	"github.com/prometheus/client_golang/prometheus"
	dto "github.com/prometheus/client_model/go"
)

// native reading of the in-flight gauges (the engine intercepts vpMetric by name and returns
// its ghost counter for the metric)
func vpMetric(name string) int {
	var g prometheus.Gauge
	switch name {
	case "tacquito_sessions_active":
		g = sessionsActive
	case "tacquito_handle_handlers":
		g = handlers
	case "tacquito_serve_accepted":
		g = serveAccepted
	case "tacquito_waitgroup_handle_routines_active":
		g = waitgroupActive
	default:
		return 0
	}
	var m dto.Metric
	if err := g.Write(&m); err != nil {
		return 0
	}
	return int(m.GetGauge().GetValue())
}

type vpInvoke struct {
	hid int
	sid uint32
	seq int
	typ uint8
}

// vpWorld is the harness-side ghost model of one connection.
type vpWorld struct {
	conn         *vpConn
	invokes      []vpInvoke
	nextID       int
	maxSeq       map[uint32]int // per session: highest sequence number received or sent
	nextHid      map[uint32]int // per session: continuation registered by the last reply
	replies      int            // number of handler replies issued
	mode         int            // reply policy
	gauge        string         // gauge to watch (C20)
	g0, gmin     int
	wrote        []int // number of packets on the wire after each handler invocation
	restarts     []bool
	scriptSecond bool // the second invocation follows a script too
	finishSecond bool // ... which finishes the session instead of registering a continuation
	setup        int  // number of leading invocations that follow a fixed script (reply + continuation)
}

func newVPWorld(conn *vpConn) *vpWorld {
	return &vpWorld{conn: conn, nextID: 1, maxSeq: map[uint32]int{}, nextHid: map[uint32]int{}}
}

func (w *vpWorld) sample() {
	if w.gauge != "" {
		if v := vpMetric(w.gauge); v < w.gmin {
			w.gmin = v
		}
	}
}

// vpHandler replies once per invocation with a symbolically chosen body and symbolically
// registers a continuation.  Convention: a RESTART reply never registers a continuation
// (RFC 8907 ends the session at RESTART; the property does not describe "RESTART and go on").
type vpHandler struct {
	w  *vpWorld
	id int
}

const (
	vpReplyAny       = 0 // any reply kind
	vpReplyNoRestart = 1
)

func (h *vpHandler) Handle(resp Response, req Request) {
	w := h.w
	sid := uint32(req.Header.SessionID)
	seq := int(req.Header.SeqNo)
	w.sample()
	// ---- C08: dispatch rules, checked against the ghost model
	vpAssert(seq%2 == 1, "C08.dispatch-odd")
	last, known := w.maxSeq[sid]
	if known {
		vpAssert(seq > last, "C08.dispatch-strictly-greater")
	}
	want, hasNext := w.nextHid[sid]
	if hasNext {
		vpAssert(h.id == want, "C08.dispatch-to-registered-continuation")
	} else {
		vpAssert(h.id == 0, "C08.dispatch-to-initial-handler")
	}
	w.conn.log.add("handle")
	w.invokes = append(w.invokes, vpInvoke{hid: h.id, sid: sid, seq: seq, typ: uint8(req.Header.Type)})
	before := len(w.conn.out)
	// ---- reply
	restart := false
	var body EncoderDecoder
	if w.setup > 0 {
		// scripted prefix: one reply, continuation registered, no choices
		w.setup--
		resp.Reply(NewAuthenReply(SetAuthenReplyStatus(AuthenStatusGetUser), SetAuthenReplyServerMsg("m")))
		w.replies++
		w.wrote = append(w.wrote, len(w.conn.out)-before)
		w.restarts = append(w.restarts, false)
		n := &vpHandler{w: w, id: w.nextID}
		w.nextID++
		resp.Next(n)
		w.nextHid[sid] = n.id
		w.maxSeq[sid] = seq + 1
		w.sample()
		return
	}
	if w.scriptSecond && len(w.invokes) == 2 {
		// scripted second invocation
		resp.Reply(NewAuthenReply(SetAuthenReplyStatus(AuthenStatusGetPass), SetAuthenReplyServerMsg("m")))
		w.replies++
		w.wrote = append(w.wrote, len(w.conn.out)-before)
		w.restarts = append(w.restarts, false)
		if w.finishSecond {
			delete(w.nextHid, sid)
			delete(w.maxSeq, sid)
		} else {
			n := &vpHandler{w: w, id: w.nextID}
			w.nextID++
			resp.Next(n)
			w.nextHid[sid] = n.id
			w.maxSeq[sid] = seq + 1
		}
		w.sample()
		return
	}
	switch vpInt(0, 2) {
	case 0:
		st := AuthenStatus(vpInt(1, 7))
		if w.mode == vpReplyNoRestart && st == AuthenStatusRestart {
			st = AuthenStatusFail
		}
		restart = st == AuthenStatusRestart
		body = NewAuthenReply(SetAuthenReplyStatus(st), SetAuthenReplyServerMsg("m"))
	case 1:
		body = NewAuthorReply(SetAuthorReplyStatus(AuthorStatusFail))
	default:
		body = NewAcctReply(SetAcctReplyStatus(AcctReplyStatusSuccess))
	}
	resp.Reply(body)
	w.replies++
	w.wrote = append(w.wrote, len(w.conn.out)-before)
	w.restarts = append(w.restarts, restart)
	sent := seq + 1
	if restart {
		sent = 1
	}
	if !restart && vpBool() {
		n := &vpHandler{w: w, id: w.nextID}
		w.nextID++
		resp.Next(n)
		w.nextHid[sid] = n.id
		w.maxSeq[sid] = sent
	} else {
		// no continuation: nothing of the session is retained
		delete(w.nextHid, sid)
		delete(w.maxSeq, sid)
	}
	w.sample()
}

// vpPacket: one request as raw bytes with the unencrypted flag set (no obfuscation, no
// key-mismatch heuristics: those are C03 / C19).
type vpPkt struct {
	sid  uint32
	seq  uint8
	typ  uint8
	flag uint8
}

func vpPktBytes(p vpPkt, body []byte) []byte {
	return append(vpHeaderBytes(0, p.typ, p.seq, p.flag|1, p.sid, len(body)), body...)
}

// vpStream builds k packets over two session ids with free sequence numbers.
func vpStream(k int) ([]vpPkt, []byte) {
	sidA := vpU32()
	sidB := vpU32()
	vpAssume(sidA != sidB)
	var pkts []vpPkt
	var in []byte
	for i := 0; i < k; i++ {
		p := vpPkt{sid: sidA, seq: vpU8(), typ: uint8(vpInt(1, 3)), flag: vpU8() & 0xfe}
		if vpBool() {
			p.sid = sidB
		}
		vpAssume(p.seq >= 1) // sequence 0 fails header validation (rejected requests: C07)
		pkts = append(pkts, p)
		in = append(in, vpPktBytes(p, nil)...)
	}
	return pkts, in
}

func vpRunLoop(in []byte, w *vpWorld) {
	w.conn.hook = w.sample
	s := NewServer(&vpLogger{}, nil)
	c := newCrypter([]byte("k"), w.conn, false)
	s.handle(newVPCtx(), c, &vpHandler{w: w, id: 0})
}

// ---------------------------------------------------------------- C08

// inductive step at the session table: any table the loop can build (stored sequence 1..256),
// one lookup with a free header
func vpH_C08_step() {
	sp := newSessionProvider()
	n := vpInt(0, 2)
	ids := []SessionID{SessionID(vpU32()), SessionID(vpU32())}
	stored := []int{vpInt(1, 256), vpInt(1, 256)}
	hs := []Handler{&vpHandler{id: 1}, &vpHandler{id: 2}}
	if n == 2 {
		vpAssume(ids[0] != ids[1])
	}
	for i := 0; i < n; i++ {
		sp.set(Header{SessionID: ids[i], SeqNo: 1}, nil)
		sp.update(Header{SessionID: ids[i], SeqNo: SequenceNumber(stored[i])}, hs[i])
	}
	h := Header{SessionID: SessionID(vpU32()), SeqNo: SequenceNumber(vpInt(1, 255))}
	got, err := sp.get(h)
	seq := int(h.SeqNo)
	if err != nil {
		vpReach("C08.step.rejected")
		return
	}
	vpReach("C08.step.accepted")
	vpAssert(seq%2 == 1, "C08.step.odd")
	for i := 0; i < n; i++ {
		if h.SessionID == ids[i] {
			vpAssert(seq > stored[i], "C08.step.strictly-greater-than-stored")
			vpAssert(got == hs[i], "C08.step.returns-that-sessions-continuation")
			return
		}
	}
	vpAssert(got == nil, "C08.step.unknown-session-has-no-continuation")
}

// bounded history through the real loop
func vpH_C08_loop() {
	k := vpBound("packets", 3)
	pkts, in := vpStream(k)
	conn := newVPConn(in)
	w := newVPWorld(conn)
	vpRunLoop(in, w)
	vpAssert(conn.closes >= 1, "C08.loop.closed-at-end")
	// reference classification of the stream: after the first packet that breaks the rules
	// nothing may reach a handler
	vpAssert(len(w.invokes) <= len(pkts), "C08.loop.at-most-one-dispatch-per-packet")
	for i := 0; i < len(pkts) && i < len(w.invokes); i++ {
		vpAssert(w.invokes[i].sid == pkts[i].sid, "C08.loop.invocations-follow-packet-order.sid")
		vpAssert(w.invokes[i].seq == int(pkts[i].seq), "C08.loop.invocations-follow-packet-order.seq")
	}
	vpObserveInt("invokes", len(w.invokes))
	vpReach("C08.loop.end")
}

// ---------------------------------------------------------------- C20

func vpH_C20_conn() {
	k := vpBound("packets", 3)
	_, in := vpStream(k)
	conn := newVPConn(in)
	w := newVPWorld(conn)
	w.gauge = "tacquito_sessions_active"
	w.g0 = vpMetric(w.gauge)
	w.gmin = w.g0
	h0 := vpMetric("tacquito_handle_handlers")
	vpRunLoop(in, w)
	w.sample()
	vpAssert(w.gmin >= w.g0, "C20.sessions_active-never-below-rest")
	vpAssert(vpMetric(w.gauge) == w.g0, "C20.sessions_active-returns-to-rest")
	vpAssert(vpMetric("tacquito_handle_handlers") == h0, "C20.handle_handlers-returns-to-rest")
	vpReach("C20.conn.end")
}

// three packets: the first two follow a fixed script (each reply registers a continuation, or
// the second one finishes the session), the third one is free.  Covers replays of the middle
// packet and packets arriving after a session has finished without the cost of three free packets.
func vpH_C08_three__2(c int) {
	sidA, sidB := vpU32(), vpU32()
	vpAssume(sidA != sidB)
	in := vpPktBytes(vpPkt{sid: sidA, seq: 1, typ: 1}, nil)
	second := sidA
	secondSeq := uint8(3)
	if c == 1 {
		second, secondSeq = sidB, 1 // another session in between
	}
	in = append(in, vpPktBytes(vpPkt{sid: second, seq: secondSeq, typ: 1}, nil)...)
	p3 := vpPkt{sid: sidA, seq: vpU8(), typ: uint8(vpInt(1, 3))}
	if vpBool() {
		p3.sid = sidB
	}
	vpAssume(p3.seq >= 1)
	in = append(in, vpPktBytes(p3, nil)...)
	conn := newVPConn(in)
	conn.log = &vpEventLog{}
	w := newVPWorld(conn)
	w.setup = 1               // first packet: reply + continuation
	w.finishSecond = vpBool() // second packet: finish the session (no continuation) or go on
	w.scriptSecond = true
	vpRunLoop(in, w)
	vpAssert(conn.closes >= 1, "C08.three.closed-at-end")
	vpAssert(len(w.invokes) >= 2, "C08.three.scripted-packets-dispatched")
	// C07: a third packet on the still open session whose number does not go beyond the last one
	// seen (request 3, reply 4), or is even, is rejected: no handler, at most one more packet
	if c == 0 && !w.finishSecond && p3.sid == sidA && (p3.seq <= 3 || p3.seq%2 == 0) {
		vpReach("C07.three.rejected")
		vpAssert(len(w.invokes) == 2, "C07.three.non-increasing-sequence-invokes-no-handler")
		vpAssert(len(conn.out) <= 3, "C07.three.rejected-request-gets-at-most-one-packet")
	}
	vpReach("C08.three.end")
}

// ---------------------------------------------------------------- C09: two connections, one server

// Sessions are per connection: a session left half-way on one connection must not influence a
// session with the same id on the next connection served by the same Server.
func vpH_C09_twoconn() {
	sid := vpU32()
	other := vpU32()
	s := NewServer(&vpLogger{}, nil)
	// connection 1: a START whose reply registers a continuation, then the client goes away
	c1 := newVPConn(vpPktBytes(vpPkt{sid: sid, seq: 1, typ: 1}, nil))
	w1 := newVPWorld(c1)
	w1.setup = 1
	c1.hook = w1.sample
	s.handle(newVPCtx(), newCrypter([]byte("k"), c1, false), &vpHandler{w: w1, id: 0})
	vpAssert(len(w1.invokes) == 1, "C09.twoconn.first-connection-served")
	// connection 2: the same session id (or another one) starts from scratch
	use := sid
	if vpBool() {
		use = other
	}
	seq := vpU8() | 1
	c2 := newVPConn(vpPktBytes(vpPkt{sid: use, seq: seq, typ: 1}, nil))
	w2 := newVPWorld(c2)
	w2.setup = 1
	c2.hook = w2.sample
	s.handle(newVPCtx(), newCrypter([]byte("k"), c2, false), &vpHandler{w: w2, id: 0})
	vpAssert(len(w2.invokes) == 1, "C09.twoconn.second-connection-starts-a-fresh-session")
	if len(w2.invokes) == 1 {
		vpAssert(w2.invokes[0].hid == 0, "C09.twoconn.dispatched-to-the-initial-handler")
	}
	if seq != 255 {
		vpAssert(len(c2.out) == 1, "C09.twoconn.second-connection-gets-its-reply")
	}
	vpReach("C09.twoconn.end")
}
