//go:build verif

package tacquito

// C01 — wire format conforms to the RFC 8907 layouts.
// Oracles are index equations written from RFC 8907 sections 4.1, 5.1-5.3, 6.1-6.2, 7.1-7.2,
// not from the code.  Encode direction: for every value the encoder accepts, the bytes are the
// layout.  Decode direction: bytes laid out per the RFC from valid field values decode to those
// values.  Wire-width overflow (a field longer than its length field) is excluded here by
// assumption; refusing it is C02's clause.

// ---------------------------------------------------------------- header (4.1)

func vpH_C01_Header_Encode() {
	h := Header{
		Version:   Version{MajorVersion: vpU8(), MinorVersion: vpU8()},
		Type:      HeaderType(vpU8()),
		SeqNo:     SequenceNumber(vpU16()),
		SessionID: SessionID(vpU32()),
		Flags:     HeaderFlag(vpU8()),
		Length:    vpU32(),
	}
	out, err := h.MarshalBinary()
	if err != nil {
		vpReach("C01.Header.refused")
		return
	}
	vpReach("C01.Header.encoded")
	vpObserveBytes("out", out)
	vpAssert(len(out) == 12, "C01.Header.len")
	vpAssert(out[0] == 0xc0|h.Version.MinorVersion, "C01.Header.version")
	vpAssert(h.Version.MajorVersion == 0xc, "C01.Header.major")
	vpAssert(h.Version.MinorVersion <= 1, "C01.Header.minor")
	vpAssert(out[1] == byte(h.Type), "C01.Header.type")
	vpAssert(h.Type >= 1, "C01.Header.type-lo")
	vpAssert(h.Type <= 3, "C01.Header.type-hi")
	vpAssert(h.SeqNo >= 1, "C01.Header.seq-lo")
	vpAssert(h.SeqNo <= 255, "C01.Header.seq-hi")
	vpAssert(out[2] == byte(h.SeqNo), "C01.Header.seq")
	vpAssert(out[3] == byte(h.Flags), "C01.Header.flags")
	sid := uint32(h.SessionID)
	vpAssert(out[4] == byte(sid>>24), "C01.Header.sid0")
	vpAssert(out[5] == byte(sid>>16), "C01.Header.sid1")
	vpAssert(out[6] == byte(sid>>8), "C01.Header.sid2")
	vpAssert(out[7] == byte(sid), "C01.Header.sid3")
	vpAssert(out[8] == byte(h.Length>>24), "C01.Header.len0")
	vpAssert(out[9] == byte(h.Length>>16), "C01.Header.len1")
	vpAssert(out[10] == byte(h.Length>>8), "C01.Header.len2")
	vpAssert(out[11] == byte(h.Length), "C01.Header.len3")
	vpReach("C01.Header.end")
}

// every valid header value must be accepted by the encoder
func vpH_C01_Header_EncodeAccepts() {
	minor := vpU8()
	typ := vpU8()
	seq := vpU8()
	ln := vpU32()
	vpAssume(minor <= 1)
	vpAssume(typ >= 1)
	vpAssume(typ <= 3)
	vpAssume(seq >= 1)
	vpAssume(ln <= 65536)
	h := Header{Version: Version{MajorVersion: 0xc, MinorVersion: minor}, Type: HeaderType(typ), SeqNo: SequenceNumber(seq),
		SessionID: SessionID(vpU32()), Flags: HeaderFlag(vpU8()), Length: ln}
	_, err := h.MarshalBinary()
	vpAssert(err == nil, "C01.Header.accepts-valid")
	vpReach("C01.HeaderAcc.end")
}

func vpH_C01_Header_Decode() {
	minor := vpU8()
	typ := vpU8()
	seq := vpU8()
	flags := vpU8()
	sid := vpU32()
	ln := vpU32()
	vpAssume(minor <= 1)
	vpAssume(typ >= 1)
	vpAssume(typ <= 3)
	vpAssume(seq >= 1)
	vpAssume(ln <= 65536)
	data := []byte{0xc0 | minor, typ, seq, flags,
		byte(sid >> 24), byte(sid >> 16), byte(sid >> 8), byte(sid),
		byte(ln >> 24), byte(ln >> 16), byte(ln >> 8), byte(ln)}
	var h Header
	err := h.UnmarshalBinary(data)
	vpAssert(err == nil, "C01.HeaderDec.accepts")
	vpReach("C01.HeaderDec.decoded")
	vpAssert(h.Version.MajorVersion == 0xc, "C01.HeaderDec.major")
	vpAssert(h.Version.MinorVersion == minor, "C01.HeaderDec.minor")
	vpAssert(byte(h.Type) == typ, "C01.HeaderDec.type")
	vpAssert(h.SeqNo == SequenceNumber(seq), "C01.HeaderDec.seq")
	want := flags
	if seq == 2 {
		want |= 0x04 // documented: the decoder turns on single-connect on sequence 2
	}
	vpAssert(byte(h.Flags) == want, "C01.HeaderDec.flags")
	vpAssert(uint32(h.SessionID) == sid, "C01.HeaderDec.sid")
	vpAssert(h.Length == ln, "C01.HeaderDec.len")
	vpReach("C01.HeaderDec.end")
}

// ---------------------------------------------------------------- packet = header ‖ body

func vpH_C01_Packet_Encode() {
	n := vpBound("text", 6)
	body := vpBytes(n)
	h := &Header{Version: Version{MajorVersion: 0xc, MinorVersion: vpU8()}, Type: HeaderType(vpU8()), SeqNo: SequenceNumber(vpU8()),
		SessionID: SessionID(vpU32()), Flags: HeaderFlag(vpU8()), Length: uint32(len(body))}
	p := &Packet{Header: h, Body: body}
	out, err := p.MarshalBinary()
	if err != nil {
		vpReach("C01.Packet.refused")
		return
	}
	vpReach("C01.Packet.encoded")
	vpAssert(len(out) == 12+len(body), "C01.Packet.len")
	vpAssert(out[0] == 0xc0|h.Version.MinorVersion, "C01.Packet.version")
	vpAssert(out[1] == byte(h.Type), "C01.Packet.type")
	vpAssert(out[2] == byte(h.SeqNo), "C01.Packet.seq")
	vpAssert(out[3] == byte(h.Flags), "C01.Packet.flags")
	vpAssert(out[8] == 0, "C01.Packet.len0")
	vpAssert(out[9] == 0, "C01.Packet.len1")
	vpAssert(out[10] == byte(len(body)>>8), "C01.Packet.len2")
	vpAssert(out[11] == byte(len(body)), "C01.Packet.len3")
	vpSameAt(out, 12, string(body), n, "C01.Packet.body")
	vpReach("C01.Packet.end")
}

func vpH_C01_Packet_Decode() {
	n := vpBound("dtext", 3)
	body := vpBytesN(vpInt(0, n))
	minor, typ, seq, flags, sid := vpU8(), vpU8(), vpU8(), vpU8(), vpU32()
	vpAssume(minor <= 1)
	vpAssume(typ >= 1)
	vpAssume(typ <= 3)
	vpAssume(seq >= 1)
	ln := len(body)
	data := []byte{0xc0 | minor, typ, seq, flags,
		byte(sid >> 24), byte(sid >> 16), byte(sid >> 8), byte(sid),
		byte(ln >> 24), byte(ln >> 16), byte(ln >> 8), byte(ln)}
	data = append(data, body...)
	var p Packet
	err := p.UnmarshalBinary(data)
	vpAssert(err == nil, "C01.PacketDec.accepts")
	vpAssert(p.Header != nil, "C01.PacketDec.header")
	vpAssert(byte(p.Header.Type) == typ, "C01.PacketDec.type")
	vpAssert(p.Header.SeqNo == SequenceNumber(seq), "C01.PacketDec.seq")
	vpAssert(uint32(p.Header.SessionID) == sid, "C01.PacketDec.sid")
	vpAssert(int(p.Header.Length) == ln, "C01.PacketDec.len")
	vpSameStr(string(p.Body), string(body), n, "C01.PacketDec.body")
	vpReach("C01.PacketDec.end")
}

// ---------------------------------------------------------------- authentication START (5.1)

func vpH_C01_AuthenStart_Encode() {
	n := vpBound("text", 6)
	a := AuthenStart{
		Action: AuthenAction(vpU8()), PrivLvl: PrivLvl(vpU8()), Type: AuthenType(vpU8()),
		Service: AuthenService(vpU8()),
		User:    AuthenUser(vpStr(n)), Port: AuthenPort(vpStr(n)),
		RemAddr: AuthenRemAddr(vpStr(n)), Data: AuthenData(vpStr(n)),
	}
	out, err := a.MarshalBinary()
	if err != nil {
		vpReach("C01.AuthenStart.refused")
		return
	}
	vpReach("C01.AuthenStart.encoded")
	vpObserveBytes("out", out)
	u, p, r, d := len(a.User), len(a.Port), len(a.RemAddr), len(a.Data)
	vpAssert(len(out) == 8+u+p+r+d, "C01.AuthenStart.len")
	vpAssert(out[0] == byte(a.Action), "C01.AuthenStart.action")
	vpAssert(out[1] == byte(a.PrivLvl), "C01.AuthenStart.priv")
	vpAssert(out[2] == byte(a.Type), "C01.AuthenStart.type")
	vpAssert(out[3] == byte(a.Service), "C01.AuthenStart.service")
	vpAssert(out[4] == byte(u), "C01.AuthenStart.user_len")
	vpAssert(out[5] == byte(p), "C01.AuthenStart.port_len")
	vpAssert(out[6] == byte(r), "C01.AuthenStart.rem_addr_len")
	vpAssert(out[7] == byte(d), "C01.AuthenStart.data_len")
	vpSameAt(out, 8, string(a.User), n, "C01.AuthenStart.user")
	vpSameAt(out, 8+u, string(a.Port), n, "C01.AuthenStart.port")
	vpSameAt(out, 8+u+p, string(a.RemAddr), n, "C01.AuthenStart.rem_addr")
	vpSameAt(out, 8+u+p+r, string(a.Data), n, "C01.AuthenStart.data")
	vpReach("C01.AuthenStart.end")
}

func vpValidAuthenFixed(action, priv, typ, svc uint8) bool {
	return vpAnd(vpAnd(vpInSet(action, 1, 2, 4), priv <= 15), vpAnd(vpAnd(typ >= 1, typ <= 6), svc <= 9))
}

func vpH_C01_AuthenStart_Decode() {
	n := vpBound("dtext", 3)
	action, priv, typ, svc := vpU8(), vpU8(), vpU8(), vpU8()
	user, port, rem, dat := vpStrN(vpInt(0, n)), vpStrN(vpInt(0, n)), vpStrN(vpInt(0, n)), vpStrN(vpInt(0, n))
	b := []byte{action, priv, typ, svc, byte(len(user)), byte(len(port)), byte(len(rem)), byte(len(dat))}
	b = append(b, user...)
	b = append(b, port...)
	b = append(b, rem...)
	b = append(b, dat...)
	var a AuthenStart
	err := a.UnmarshalBinary(b)
	valid := vpAnd(vpValidAuthenFixed(action, priv, typ, svc),
		vpAnd(vpAnd(vpIsASCII(user), vpIsASCII(port)), vpAnd(vpIsASCII(rem), vpImp(typ == 1, vpIsASCII(dat)))))
	vpAssert(vpImp(valid, err == nil), "C01.AuthenStartDec.accepts-valid")
	if err != nil {
		vpReach("C01.AuthenStartDec.refused")
		return
	}
	vpReach("C01.AuthenStartDec.decoded")
	vpAssert(byte(a.Action) == action, "C01.AuthenStartDec.action")
	vpAssert(byte(a.PrivLvl) == priv, "C01.AuthenStartDec.priv")
	vpAssert(byte(a.Type) == typ, "C01.AuthenStartDec.type")
	vpAssert(byte(a.Service) == svc, "C01.AuthenStartDec.service")
	vpSameStr(string(a.User), user, n, "C01.AuthenStartDec.user")
	vpSameStr(string(a.Port), port, n, "C01.AuthenStartDec.port")
	vpSameStr(string(a.RemAddr), rem, n, "C01.AuthenStartDec.rem_addr")
	vpSameStr(string(a.Data), dat, n, "C01.AuthenStartDec.data")
	vpReach("C01.AuthenStartDec.end")
}

// ---------------------------------------------------------------- authentication REPLY (5.2)

func vpH_C01_AuthenReply_Encode() {
	n := vpBound("text", 6)
	a := AuthenReply{Status: AuthenStatus(vpU8()), Flags: AuthenReplyFlag(vpU8()),
		ServerMsg: AuthenServerMsg(vpStr(n)), Data: AuthenData(vpStr(n))}
	out, err := a.MarshalBinary()
	if err != nil {
		vpReach("C01.AuthenReply.refused")
		return
	}
	vpReach("C01.AuthenReply.encoded")
	m, d := len(a.ServerMsg), len(a.Data)
	vpAssert(len(out) == 6+m+d, "C01.AuthenReply.len")
	vpAssert(out[0] == byte(a.Status), "C01.AuthenReply.status")
	vpAssert(out[1] == byte(a.Flags), "C01.AuthenReply.flags")
	vpAssert(out[2] == byte(m>>8), "C01.AuthenReply.server_msg_len_hi")
	vpAssert(out[3] == byte(m), "C01.AuthenReply.server_msg_len_lo")
	vpAssert(out[4] == byte(d>>8), "C01.AuthenReply.data_len_hi")
	vpAssert(out[5] == byte(d), "C01.AuthenReply.data_len_lo")
	vpSameAt(out, 6, string(a.ServerMsg), n, "C01.AuthenReply.server_msg")
	vpSameAt(out, 6+m, string(a.Data), n, "C01.AuthenReply.data")
	vpReach("C01.AuthenReply.end")
}

func vpH_C01_AuthenReply_Decode() {
	n := vpBound("dtext", 3)
	status, flags := vpU8(), vpU8()
	msg, dat := vpStrN(vpInt(0, n)), vpStrN(vpInt(0, n))
	b := []byte{status, flags, byte(len(msg) >> 8), byte(len(msg)), byte(len(dat) >> 8), byte(len(dat))}
	b = append(b, msg...)
	b = append(b, dat...)
	var a AuthenReply
	err := a.UnmarshalBinary(b)
	vpAssert(vpImp(vpAnd(status >= 1, status <= 7), err == nil), "C01.AuthenReplyDec.accepts-valid")
	if err != nil {
		vpReach("C01.AuthenReplyDec.refused")
		return
	}
	vpReach("C01.AuthenReplyDec.decoded")
	vpAssert(byte(a.Status) == status, "C01.AuthenReplyDec.status")
	vpAssert(byte(a.Flags) == flags, "C01.AuthenReplyDec.flags")
	vpSameStr(string(a.ServerMsg), msg, n, "C01.AuthenReplyDec.server_msg")
	vpSameStr(string(a.Data), dat, n, "C01.AuthenReplyDec.data")
	vpReach("C01.AuthenReplyDec.end")
}

// ---------------------------------------------------------------- authentication CONTINUE (5.3)

func vpH_C01_AuthenContinue_Encode() {
	n := vpBound("text", 6)
	a := AuthenContinue{Flags: AuthenContinueFlag(vpU8()), UserMessage: AuthenUserMessage(vpStr(n)), Data: AuthenData(vpStr(n))}
	out, err := a.MarshalBinary()
	if err != nil {
		vpReach("C01.AuthenContinue.refused")
		return
	}
	vpReach("C01.AuthenContinue.encoded")
	m, d := len(a.UserMessage), len(a.Data)
	vpAssert(len(out) == 5+m+d, "C01.AuthenContinue.len")
	vpAssert(out[0] == byte(m>>8), "C01.AuthenContinue.user_msg_len_hi")
	vpAssert(out[1] == byte(m), "C01.AuthenContinue.user_msg_len_lo")
	vpAssert(out[2] == byte(d>>8), "C01.AuthenContinue.data_len_hi")
	vpAssert(out[3] == byte(d), "C01.AuthenContinue.data_len_lo")
	vpAssert(out[4] == byte(a.Flags), "C01.AuthenContinue.flags")
	vpSameAt(out, 5, string(a.UserMessage), n, "C01.AuthenContinue.user_msg")
	vpSameAt(out, 5+m, string(a.Data), n, "C01.AuthenContinue.data")
	vpReach("C01.AuthenContinue.end")
}

func vpH_C01_AuthenContinue_Decode() {
	n := vpBound("dtext", 3)
	flags := vpU8()
	msg, dat := vpStrN(vpInt(0, n)), vpStrN(vpInt(0, n))
	b := []byte{byte(len(msg) >> 8), byte(len(msg)), byte(len(dat) >> 8), byte(len(dat)), flags}
	b = append(b, msg...)
	b = append(b, dat...)
	var a AuthenContinue
	err := a.UnmarshalBinary(b)
	vpAssert(vpImp(vpIsASCII(msg), err == nil), "C01.AuthenContinueDec.accepts-valid")
	if err != nil {
		vpReach("C01.AuthenContinueDec.refused")
		return
	}
	vpReach("C01.AuthenContinueDec.decoded")
	vpAssert(byte(a.Flags) == flags, "C01.AuthenContinueDec.flags")
	vpSameStr(string(a.UserMessage), msg, n, "C01.AuthenContinueDec.user_msg")
	vpSameStr(string(a.Data), dat, n, "C01.AuthenContinueDec.data")
	vpReach("C01.AuthenContinueDec.end")
}

// ---------------------------------------------------------------- authorization REQUEST (6.1)

// vpArgsLayout checks arg_cnt/arg_len octets at lenOff.. and argument bytes from dataOff.
func vpArgsLayout(out []byte, lenOff, dataOff int, args Args, maxLen int, id string) {
	off := dataOff
	for k := 0; k < len(args); k++ {
		vpAssert(vpAt(out, lenOff+k) == byte(len(args[k])), id+".arg_len")
		vpSameAt(out, off, string(args[k]), maxLen, id+".arg")
		off += len(args[k])
	}
}

func vpArgsTotal(args Args) int {
	t := 0
	for _, a := range args {
		t += len(a)
	}
	return t
}

func vpH_C01_AuthorRequest_Encode() {
	n := vpBound("text", 6)
	an, al := vpBound("args", 2), vpBound("arglen", 4)
	a := AuthorRequest{Method: AuthenMethod(vpU8()), PrivLvl: PrivLvl(vpU8()), Type: AuthenType(vpU8()), Service: AuthenService(vpU8()),
		User: AuthenUser(vpStr(n)), Port: AuthenPort(vpStr(n)), RemAddr: AuthenRemAddr(vpStr(n)), Args: vpArgList(an, al)}
	out, err := a.MarshalBinary()
	if err != nil {
		vpReach("C01.AuthorRequest.refused")
		return
	}
	vpReach("C01.AuthorRequest.encoded")
	u, p, r, c := len(a.User), len(a.Port), len(a.RemAddr), len(a.Args)
	vpAssert(len(out) == 8+c+u+p+r+vpArgsTotal(a.Args), "C01.AuthorRequest.len")
	vpAssert(out[0] == byte(a.Method), "C01.AuthorRequest.method")
	vpAssert(out[1] == byte(a.PrivLvl), "C01.AuthorRequest.priv")
	vpAssert(out[2] == byte(a.Type), "C01.AuthorRequest.type")
	vpAssert(out[3] == byte(a.Service), "C01.AuthorRequest.service")
	vpAssert(out[4] == byte(u), "C01.AuthorRequest.user_len")
	vpAssert(out[5] == byte(p), "C01.AuthorRequest.port_len")
	vpAssert(out[6] == byte(r), "C01.AuthorRequest.rem_addr_len")
	vpAssert(out[7] == byte(c), "C01.AuthorRequest.arg_cnt")
	vpSameAt(out, 8+c, string(a.User), n, "C01.AuthorRequest.user")
	vpSameAt(out, 8+c+u, string(a.Port), n, "C01.AuthorRequest.port")
	vpSameAt(out, 8+c+u+p, string(a.RemAddr), n, "C01.AuthorRequest.rem_addr")
	vpArgsLayout(out, 8, 8+c+u+p+r, a.Args, al, "C01.AuthorRequest")
	vpReach("C01.AuthorRequest.end")
}

func vpAppendArgs(lens, data []byte, args Args) ([]byte, []byte) {
	for _, a := range args {
		lens = append(lens, byte(len(a)))
		data = append(data, a...)
	}
	return lens, data
}

func vpArgsValid(args Args, min int) bool {
	ok := true
	for _, a := range args {
		ok = vpAnd(ok, vpAnd(vpIsASCII(string(a)), len(a) >= min))
	}
	return ok
}

func vpSameArgs(got, want Args, maxLen int, id string) {
	vpAssert(len(got) == len(want), id+".arg_cnt")
	for k := 0; k < len(want) && k < len(got); k++ {
		vpSameStr(string(got[k]), string(want[k]), maxLen, id+".arg")
	}
}

func vpH_C01_AuthorRequest_Decode() {
	n := vpBound("dtext", 3)
	an, al := vpBound("dargs", 1), vpBound("darglen", 3)
	method, priv, typ, svc := vpU8(), vpU8(), vpU8(), vpU8()
	user, port, rem := vpStrN(vpInt(0, n)), vpStrN(vpInt(0, n)), vpStrN(vpInt(0, n))
	args := vpArgListN(an, al)
	b := []byte{method, priv, typ, svc, byte(len(user)), byte(len(port)), byte(len(rem)), byte(len(args))}
	var tail []byte
	b, tail = vpAppendArgs(b, nil, args)
	b = append(b, user...)
	b = append(b, port...)
	b = append(b, rem...)
	b = append(b, tail...)
	var a AuthorRequest
	err := a.UnmarshalBinary(b)
	valid := vpAnd(vpAnd(vpInSet(method, 0, 1, 2, 3, 4, 5, 6, 8, 16), priv <= 15), vpAnd(typ <= 6, svc <= 9))
	valid = vpAnd(valid, vpAnd(vpAnd(vpIsASCII(user), vpIsASCII(port)), vpAnd(vpIsASCII(rem), vpArgsValid(args, 2))))
	vpAssert(vpImp(valid, err == nil), "C01.AuthorRequestDec.accepts-valid")
	if err != nil {
		vpReach("C01.AuthorRequestDec.refused")
		return
	}
	vpReach("C01.AuthorRequestDec.decoded")
	vpAssert(byte(a.Method) == method, "C01.AuthorRequestDec.method")
	vpAssert(byte(a.PrivLvl) == priv, "C01.AuthorRequestDec.priv")
	vpAssert(byte(a.Type) == typ, "C01.AuthorRequestDec.type")
	vpAssert(byte(a.Service) == svc, "C01.AuthorRequestDec.service")
	vpSameStr(string(a.User), user, n, "C01.AuthorRequestDec.user")
	vpSameStr(string(a.Port), port, n, "C01.AuthorRequestDec.port")
	vpSameStr(string(a.RemAddr), rem, n, "C01.AuthorRequestDec.rem_addr")
	vpSameArgs(a.Args, args, al, "C01.AuthorRequestDec")
	vpReach("C01.AuthorRequestDec.end")
}

// ---------------------------------------------------------------- authorization REPLY (6.2)

func vpH_C01_AuthorReply_Encode() {
	n := vpBound("text", 6)
	an, al := vpBound("args", 2), vpBound("arglen", 4)
	a := AuthorReply{Status: AuthorStatus(vpU8()), Args: vpArgList(an, al), ServerMsg: AuthorServerMsg(vpStr(n)), Data: AuthorData(vpStr(n))}
	out, err := a.MarshalBinary()
	if err != nil {
		vpReach("C01.AuthorReply.refused")
		return
	}
	vpReach("C01.AuthorReply.encoded")
	m, d, c := len(a.ServerMsg), len(a.Data), len(a.Args)
	vpAssert(len(out) == 6+c+m+d+vpArgsTotal(a.Args), "C01.AuthorReply.len")
	vpAssert(out[0] == byte(a.Status), "C01.AuthorReply.status")
	vpAssert(out[1] == byte(c), "C01.AuthorReply.arg_cnt")
	vpAssert(out[2] == byte(m>>8), "C01.AuthorReply.server_msg_len_hi")
	vpAssert(out[3] == byte(m), "C01.AuthorReply.server_msg_len_lo")
	vpAssert(out[4] == byte(d>>8), "C01.AuthorReply.data_len_hi")
	vpAssert(out[5] == byte(d), "C01.AuthorReply.data_len_lo")
	vpSameAt(out, 6+c, string(a.ServerMsg), n, "C01.AuthorReply.server_msg")
	vpSameAt(out, 6+c+m, string(a.Data), n, "C01.AuthorReply.data")
	vpArgsLayout(out, 6, 6+c+m+d, a.Args, al, "C01.AuthorReply")
	vpReach("C01.AuthorReply.end")
}

func vpH_C01_AuthorReply_Decode() {
	n := vpBound("dtext", 3)
	an, al := vpBound("dargs", 1), vpBound("darglen", 3)
	status := vpU8()
	msg, dat := vpStrN(vpInt(0, n)), vpStrN(vpInt(0, n))
	args := vpArgListN(an, al)
	b := []byte{status, byte(len(args)), byte(len(msg) >> 8), byte(len(msg)), byte(len(dat) >> 8), byte(len(dat))}
	var tail []byte
	b, tail = vpAppendArgs(b, nil, args)
	b = append(b, msg...)
	b = append(b, dat...)
	b = append(b, tail...)
	var a AuthorReply
	err := a.UnmarshalBinary(b)
	valid := vpAnd(vpInSet(status, 1, 2, 16, 17), vpAnd(vpAnd(vpIsASCII(msg), vpIsASCII(dat)), vpArgsValid(args, 2)))
	vpAssert(vpImp(valid, err == nil), "C01.AuthorReplyDec.accepts-valid")
	if err != nil {
		vpReach("C01.AuthorReplyDec.refused")
		return
	}
	vpReach("C01.AuthorReplyDec.decoded")
	vpAssert(byte(a.Status) == status, "C01.AuthorReplyDec.status")
	vpSameStr(string(a.ServerMsg), msg, n, "C01.AuthorReplyDec.server_msg")
	vpSameStr(string(a.Data), dat, n, "C01.AuthorReplyDec.data")
	vpSameArgs(a.Args, args, al, "C01.AuthorReplyDec")
	vpReach("C01.AuthorReplyDec.end")
}

// ---------------------------------------------------------------- accounting REQUEST (7.1)

func vpH_C01_AcctRequest_Encode() {
	n := vpBound("text", 6)
	an, al := vpBound("args", 2), vpBound("arglen", 4)
	a := AcctRequest{Flags: AcctRequestFlag(vpU8()), Method: AuthenMethod(vpU8()), PrivLvl: PrivLvl(vpU8()), Type: AuthenType(vpU8()),
		Service: AuthenService(vpU8()), User: AuthenUser(vpStr(n)), Port: AuthenPort(vpStr(n)), RemAddr: AuthenRemAddr(vpStr(n)), Args: vpArgList(an, al)}
	out, err := a.MarshalBinary()
	if err != nil {
		vpReach("C01.AcctRequest.refused")
		return
	}
	vpReach("C01.AcctRequest.encoded")
	u, p, r, c := len(a.User), len(a.Port), len(a.RemAddr), len(a.Args)
	vpAssert(len(out) == 9+c+u+p+r+vpArgsTotal(a.Args), "C01.AcctRequest.len")
	vpAssert(out[0] == byte(a.Flags), "C01.AcctRequest.flags")
	vpAssert(out[1] == byte(a.Method), "C01.AcctRequest.method")
	vpAssert(out[2] == byte(a.PrivLvl), "C01.AcctRequest.priv")
	vpAssert(out[3] == byte(a.Type), "C01.AcctRequest.type")
	vpAssert(out[4] == byte(a.Service), "C01.AcctRequest.service")
	vpAssert(out[5] == byte(u), "C01.AcctRequest.user_len")
	vpAssert(out[6] == byte(p), "C01.AcctRequest.port_len")
	vpAssert(out[7] == byte(r), "C01.AcctRequest.rem_addr_len")
	vpAssert(out[8] == byte(c), "C01.AcctRequest.arg_cnt")
	vpSameAt(out, 9+c, string(a.User), n, "C01.AcctRequest.user")
	vpSameAt(out, 9+c+u, string(a.Port), n, "C01.AcctRequest.port")
	vpSameAt(out, 9+c+u+p, string(a.RemAddr), n, "C01.AcctRequest.rem_addr")
	vpArgsLayout(out, 9, 9+c+u+p+r, a.Args, al, "C01.AcctRequest")
	vpReach("C01.AcctRequest.end")
}

func vpH_C01_AcctRequest_Decode() {
	n := vpBound("dtext", 3)
	an, al := vpBound("dargs", 1), vpBound("darglen", 3)
	flags, method, priv, typ, svc := vpU8(), vpU8(), vpU8(), vpU8(), vpU8()
	user, port, rem := vpStrN(vpInt(0, n)), vpStrN(vpInt(0, n)), vpStrN(vpInt(0, n))
	args := vpArgListN(an, al)
	b := []byte{flags, method, priv, typ, svc, byte(len(user)), byte(len(port)), byte(len(rem)), byte(len(args))}
	var tail []byte
	b, tail = vpAppendArgs(b, nil, args)
	b = append(b, user...)
	b = append(b, port...)
	b = append(b, rem...)
	b = append(b, tail...)
	var a AcctRequest
	err := a.UnmarshalBinary(b)
	valid := vpAnd(vpAnd(vpInSet(method, 0, 1, 2, 3, 4, 5, 6, 8, 16), priv <= 15), vpAnd(typ <= 6, svc <= 9))
	valid = vpAnd(valid, vpAnd(vpAnd(vpIsASCII(user), vpIsASCII(port)), vpAnd(vpIsASCII(rem), vpArgsValid(args, 0))))
	valid = vpAnd(valid, flags&0x0c != 0x0c) // stop (0x04) together with watchdog (0x08) is contradictory
	vpAssert(vpImp(valid, err == nil), "C01.AcctRequestDec.accepts-valid")
	if err != nil {
		vpReach("C01.AcctRequestDec.refused")
		return
	}
	vpReach("C01.AcctRequestDec.decoded")
	vpAssert(byte(a.Flags) == flags, "C01.AcctRequestDec.flags")
	vpAssert(byte(a.Method) == method, "C01.AcctRequestDec.method")
	vpAssert(byte(a.PrivLvl) == priv, "C01.AcctRequestDec.priv")
	vpAssert(byte(a.Type) == typ, "C01.AcctRequestDec.type")
	vpAssert(byte(a.Service) == svc, "C01.AcctRequestDec.service")
	vpSameStr(string(a.User), user, n, "C01.AcctRequestDec.user")
	vpSameStr(string(a.Port), port, n, "C01.AcctRequestDec.port")
	vpSameStr(string(a.RemAddr), rem, n, "C01.AcctRequestDec.rem_addr")
	vpSameArgs(a.Args, args, al, "C01.AcctRequestDec")
	vpReach("C01.AcctRequestDec.end")
}

// ---------------------------------------------------------------- accounting REPLY (7.2)

func vpH_C01_AcctReply_Encode() {
	n := vpBound("text", 6)
	a := AcctReply{Status: AcctReplyStatus(vpU8()), ServerMsg: AcctServerMsg(vpStr(n)), Data: AcctData(vpStr(n))}
	out, err := a.MarshalBinary()
	if err != nil {
		vpReach("C01.AcctReply.refused")
		return
	}
	vpReach("C01.AcctReply.encoded")
	m, d := len(a.ServerMsg), len(a.Data)
	vpAssert(len(out) == 5+m+d, "C01.AcctReply.len")
	vpAssert(out[0] == byte(m>>8), "C01.AcctReply.server_msg_len_hi")
	vpAssert(out[1] == byte(m), "C01.AcctReply.server_msg_len_lo")
	vpAssert(out[2] == byte(d>>8), "C01.AcctReply.data_len_hi")
	vpAssert(out[3] == byte(d), "C01.AcctReply.data_len_lo")
	vpAssert(out[4] == byte(a.Status), "C01.AcctReply.status")
	vpSameAt(out, 5, string(a.ServerMsg), n, "C01.AcctReply.server_msg")
	vpSameAt(out, 5+m, string(a.Data), n, "C01.AcctReply.data")
	vpReach("C01.AcctReply.end")
}

func vpH_C01_AcctReply_Decode() {
	n := vpBound("dtext", 3)
	status := vpU8()
	msg, dat := vpStrN(vpInt(0, n)), vpStrN(vpInt(0, n))
	b := []byte{byte(len(msg) >> 8), byte(len(msg)), byte(len(dat) >> 8), byte(len(dat)), status}
	b = append(b, msg...)
	b = append(b, dat...)
	var a AcctReply
	err := a.UnmarshalBinary(b)
	valid := vpAnd(vpInSet(status, 1, 2), vpAnd(vpIsASCII(msg), vpIsASCII(dat)))
	vpAssert(vpImp(valid, err == nil), "C01.AcctReplyDec.accepts-valid")
	if err != nil {
		vpReach("C01.AcctReplyDec.refused")
		return
	}
	vpReach("C01.AcctReplyDec.decoded")
	vpAssert(byte(a.Status) == status, "C01.AcctReplyDec.status")
	vpSameStr(string(a.ServerMsg), msg, n, "C01.AcctReplyDec.server_msg")
	vpSameStr(string(a.Data), dat, n, "C01.AcctReplyDec.data")
	vpReach("C01.AcctReplyDec.end")
}

// ---------------------------------------------------------------- 16-bit length fields >= 256

// A two-octet length must be read high octet first also when the high octet is not zero:
// concretised lengths on both sides of 256 (content free), decode direction.
func vpH_C01_Len16_Decode__8(c int) {
	l := []int{255, 256, 300, 511}[c%4]
	msg := vpStrN(l)
	if c/4 == 0 {
		b := []byte{2, 0, byte(l >> 8), byte(l), 0, 0} // authentication REPLY, server_msg of l bytes
		b = append(b, msg...)
		var a AuthenReply
		err := a.UnmarshalBinary(b)
		vpAssert(err == nil, "C01.Len16.AuthenReply.accepts")
		vpAssert(len(a.ServerMsg) == l, "C01.Len16.AuthenReply.server_msg_len")
		vpAssert(len(a.Data) == 0, "C01.Len16.AuthenReply.data_len")
	} else {
		vpAssume(vpIsASCII(msg))
		b := []byte{0, 0, byte(l >> 8), byte(l), 1} // accounting REPLY, data of l bytes
		b = append(b, msg...)
		var a AcctReply
		err := a.UnmarshalBinary(b)
		vpAssert(err == nil, "C01.Len16.AcctReply.accepts")
		vpAssert(len(a.Data) == l, "C01.Len16.AcctReply.data_len")
		vpAssert(len(a.ServerMsg) == 0, "C01.Len16.AcctReply.server_msg_len")
	}
	vpReach("C01.Len16.end")
}

// the same in the encode direction
func vpH_C01_Len16_Encode__4(c int) {
	l := []int{255, 256, 300, 511}[c]
	msg := vpStrN(l)
	a := AuthenReply{Status: AuthenStatusFail, ServerMsg: AuthenServerMsg(msg)}
	out, err := a.MarshalBinary()
	vpAssert(err == nil, "C01.Len16.enc.accepts")
	if err != nil {
		return
	}
	vpAssert(len(out) == 6+l, "C01.Len16.enc.len")
	vpAssert(out[2] == byte(l>>8) && out[3] == byte(l), "C01.Len16.enc.big-endian")
	vpReach("C01.Len16.enc.end")
}
