//go:build verif

package tacquito

// C01 — wire format conforms to the RFC 8907 layouts.
// Oracles are index equations written from RFC 8907 sections 4.1, 5.1-5.3, 6.1-6.2, 7.1-7.2.

func vpIdx(n int) int {
	// a fresh index < n (caller guarantees n > 0)
	return vpInt(0, n-1)
}

func vpH_C01_Header_Encode() {
	h := Header{
		Version:   Version{MajorVersion: vpU8(), MinorVersion: vpU8()},
		Type:      HeaderType(vpU8()),
		SeqNo:     SequenceNumber(vpU16()),
		SessionID: SessionID(vpU32()),
		Flags:     HeaderFlag(vpU8()),
		Length:    vpU32(),
	}
	out, err := h.MarshalBinary()
	if err != nil {
		vpReach("C01.Header.refused")
		return
	}
	vpReach("C01.Header.encoded")
	vpObserveBytes("out", out)
	vpAssert(len(out) == 12, "C01.Header.len")
	// RFC 8907 4.1: major version is the high nibble (0xc), minor the low nibble
	vpAssert(out[0] == 0xc0|h.Version.MinorVersion, "C01.Header.version")
	vpAssert(h.Version.MajorVersion == 0xc, "C01.Header.major")
	vpAssert(h.Version.MinorVersion <= 1, "C01.Header.minor")
	vpAssert(out[1] == byte(h.Type), "C01.Header.type")
	vpAssert(h.Type >= 1, "C01.Header.type-lo")
	vpAssert(h.Type <= 3, "C01.Header.type-hi")
	vpAssert(h.SeqNo >= 1, "C01.Header.seq-lo")
	vpAssert(h.SeqNo <= 255, "C01.Header.seq-hi")
	vpAssert(out[2] == byte(h.SeqNo), "C01.Header.seq")
	vpAssert(out[3] == byte(h.Flags), "C01.Header.flags")
	sid := uint32(h.SessionID)
	vpAssert(out[4] == byte(sid>>24), "C01.Header.sid0")
	vpAssert(out[5] == byte(sid>>16), "C01.Header.sid1")
	vpAssert(out[6] == byte(sid>>8), "C01.Header.sid2")
	vpAssert(out[7] == byte(sid), "C01.Header.sid3")
	vpAssert(out[8] == byte(h.Length>>24), "C01.Header.len0")
	vpAssert(out[9] == byte(h.Length>>16), "C01.Header.len1")
	vpAssert(out[10] == byte(h.Length>>8), "C01.Header.len2")
	vpAssert(out[11] == byte(h.Length), "C01.Header.len3")
	vpReach("C01.Header.end")
}

func vpH_C01_Header_Decode() {
	minor := vpU8()
	typ := vpU8()
	seq := vpU8()
	flags := vpU8()
	sid := vpU32()
	ln := vpU32()
	vpAssume(minor <= 1)
	vpAssume(typ >= 1)
	vpAssume(typ <= 3)
	vpAssume(seq >= 1)
	vpAssume(ln <= 65536)
	data := []byte{0xc0 | minor, typ, seq, flags,
		byte(sid >> 24), byte(sid >> 16), byte(sid >> 8), byte(sid),
		byte(ln >> 24), byte(ln >> 16), byte(ln >> 8), byte(ln)}
	var h Header
	err := h.UnmarshalBinary(data)
	vpAssert(err == nil, "C01.HeaderDec.accepts")
	vpReach("C01.HeaderDec.decoded")
	vpAssert(h.Version.MajorVersion == 0xc, "C01.HeaderDec.major")
	vpAssert(h.Version.MinorVersion == minor, "C01.HeaderDec.minor")
	vpAssert(byte(h.Type) == typ, "C01.HeaderDec.type")
	vpAssert(h.SeqNo == SequenceNumber(seq), "C01.HeaderDec.seq")
	want := flags
	if seq == 2 {
		want |= 0x04 // documented: the decoder turns on single-connect on sequence 2
	}
	vpAssert(byte(h.Flags) == want, "C01.HeaderDec.flags")
	vpAssert(uint32(h.SessionID) == sid, "C01.HeaderDec.sid")
	vpAssert(h.Length == ln, "C01.HeaderDec.len")
	vpReach("C01.HeaderDec.end")
}

func vpH_C01_AuthenStart_Encode() {
	n := vpBound("text", 6)
	a := AuthenStart{
		Action: AuthenAction(vpU8()), PrivLvl: PrivLvl(vpU8()), Type: AuthenType(vpU8()),
		Service: AuthenService(vpU8()),
		User:    AuthenUser(vpStr(n)), Port: AuthenPort(vpStr(n)),
		RemAddr: AuthenRemAddr(vpStr(n)), Data: AuthenData(vpStr(n)),
	}
	out, err := a.MarshalBinary()
	if err != nil {
		vpReach("C01.AuthenStart.refused")
		return
	}
	vpReach("C01.AuthenStart.encoded")
	vpObserveBytes("out", out)
	u, p, r, d := len(a.User), len(a.Port), len(a.RemAddr), len(a.Data)
	vpAssert(len(out) == 8+u+p+r+d, "C01.AuthenStart.len")
	vpAssert(out[0] == byte(a.Action), "C01.AuthenStart.action")
	vpAssert(out[1] == byte(a.PrivLvl), "C01.AuthenStart.priv")
	vpAssert(out[2] == byte(a.Type), "C01.AuthenStart.type")
	vpAssert(out[3] == byte(a.Service), "C01.AuthenStart.service")
	vpAssert(out[4] == byte(u), "C01.AuthenStart.user_len")
	vpAssert(out[5] == byte(p), "C01.AuthenStart.port_len")
	vpAssert(out[6] == byte(r), "C01.AuthenStart.rem_addr_len")
	vpAssert(out[7] == byte(d), "C01.AuthenStart.data_len")
	if u > 0 {
		i := vpIdx(u)
		vpAssert(out[8+i] == a.User[i], "C01.AuthenStart.user")
	}
	if p > 0 {
		i := vpIdx(p)
		vpAssert(out[8+u+i] == a.Port[i], "C01.AuthenStart.port")
	}
	if r > 0 {
		i := vpIdx(r)
		vpAssert(out[8+u+p+i] == a.RemAddr[i], "C01.AuthenStart.rem_addr")
	}
	if d > 0 {
		i := vpIdx(d)
		vpAssert(out[8+u+p+r+i] == a.Data[i], "C01.AuthenStart.data")
	}
	vpReach("C01.AuthenStart.end")
}
