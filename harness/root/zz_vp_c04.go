//go:build verif

package tacquito

// C04 — decoding arbitrary bytes is total, memory-safe and bounded.
// Input: a byte slice of concretised length with free content, spare capacity behind the length
// and free bytes in that spare capacity.  Obligations: (1) no panic anywhere below the decoder
// (engine: every index / slice / nil dereference / type assertion is a solver obligation);
// (2) a value returned without error satisfies the type's Validate() and every text field equals
// the input bytes at the RFC offsets; nothing reaches behind len(input); (3) allocation bounded.

func vpC04Input() []byte {
	n := vpBound("c04bytes", 12)
	extra := vpBound("c04cap", 4)
	ex := 0
	if vpBool() {
		ex = extra
	}
	return vpBytesCapN(vpInt(0, n), ex)
}

func vpAllocOK(a0, a1 uint64, inputLen int, id string) {
	vpAssert(a1-a0 <= uint64(64*inputLen+16384), id)
}

// vpFieldAt: f == data[off : off+len(f)] and the range lies inside len(data)
func vpFieldAt(data []byte, off int, f string, id string) {
	vpAssert(vpImp(len(f) > 0, off+len(f) <= len(data)), id+".inside")
	i := vpInt(0, vpBound("c04bytes", 12)+vpBound("c04cap", 4))
	vpAssert(vpImp(i < len(f), vpAt(data, off+i) == vpAtS(f, i)), id+".bytes")
}

func vpH_C04_Header_Decode() {
	ex := 0
	if vpBool() {
		ex = vpBound("c04cap", 4)
	}
	data := vpBytesCapN(vpInt(0, 14), ex)
	a0 := vpAllocBytes()
	var h Header
	err := Unmarshal(data, &h)
	vpAllocOK(a0, vpAllocBytes(), len(data), "C04.Header.alloc")
	if err != nil {
		vpReach("C04.Header.refused")
		return
	}
	vpReach("C04.Header.decoded")
	vpAssert(len(data) >= 12, "C04.Header.needs-12")
	vpAssert(h.Validate() == nil, "C04.Header.valid")
}

func vpH_C04_Packet_Decode() {
	n := vpBound("c04bytes", 12) + 8
	extra := vpBound("c04cap", 4)
	ex := 0
	if vpBool() {
		ex = extra
	}
	data := vpBytesCapN(vpInt(0, n), ex)
	a0 := vpAllocBytes()
	var p Packet
	err := Unmarshal(data, &p)
	vpAllocOK(a0, vpAllocBytes(), len(data), "C04.Packet.alloc")
	if err != nil {
		vpReach("C04.Packet.refused")
		return
	}
	vpReach("C04.Packet.decoded")
	vpAssert(p.Header != nil, "C04.Packet.header")
	vpAssert(p.Header.Validate() == nil, "C04.Packet.valid")
	vpAssert(12+len(p.Body) <= len(data), "C04.Packet.body-inside-input")
	vpAssert(len(p.Body) == int(p.Header.Length), "C04.Packet.body-len")
	vpFieldAt(data, 12, string(p.Body), "C04.Packet.body")
}

func vpH_C04_AuthenStart_Decode() {
	data := vpC04Input()
	a0 := vpAllocBytes()
	var a AuthenStart
	err := Unmarshal(data, &a)
	vpAllocOK(a0, vpAllocBytes(), len(data), "C04.AuthenStart.alloc")
	if err != nil {
		vpReach("C04.AuthenStart.refused")
		return
	}
	vpReach("C04.AuthenStart.decoded")
	vpAssert(a.Validate() == nil, "C04.AuthenStart.valid")
	u, p, r := len(a.User), len(a.Port), len(a.RemAddr)
	vpFieldAt(data, 8, string(a.User), "C04.AuthenStart.user")
	vpFieldAt(data, 8+u, string(a.Port), "C04.AuthenStart.port")
	vpFieldAt(data, 8+u+p, string(a.RemAddr), "C04.AuthenStart.rem_addr")
	vpFieldAt(data, 8+u+p+r, string(a.Data), "C04.AuthenStart.data")
}

func vpH_C04_AuthenReply_Decode() {
	data := vpC04Input()
	a0 := vpAllocBytes()
	var a AuthenReply
	err := Unmarshal(data, &a)
	vpAllocOK(a0, vpAllocBytes(), len(data), "C04.AuthenReply.alloc")
	if err != nil {
		vpReach("C04.AuthenReply.refused")
		return
	}
	vpReach("C04.AuthenReply.decoded")
	vpAssert(a.Validate() == nil, "C04.AuthenReply.valid")
	vpFieldAt(data, 6, string(a.ServerMsg), "C04.AuthenReply.server_msg")
	vpFieldAt(data, 6+len(a.ServerMsg), string(a.Data), "C04.AuthenReply.data")
}

func vpH_C04_AuthenContinue_Decode() {
	data := vpC04Input()
	a0 := vpAllocBytes()
	var a AuthenContinue
	err := Unmarshal(data, &a)
	vpAllocOK(a0, vpAllocBytes(), len(data), "C04.AuthenContinue.alloc")
	if err != nil {
		vpReach("C04.AuthenContinue.refused")
		return
	}
	vpReach("C04.AuthenContinue.decoded")
	vpAssert(a.Validate() == nil, "C04.AuthenContinue.valid")
	vpFieldAt(data, 5, string(a.UserMessage), "C04.AuthenContinue.user_msg")
	vpFieldAt(data, 5+len(a.UserMessage), string(a.Data), "C04.AuthenContinue.data")
}

func vpArgsAt(data []byte, off int, args Args, id string) {
	for k := 0; k < len(args); k++ {
		vpFieldAt(data, off, string(args[k]), id)
		off += len(args[k])
	}
}

// arg_cnt is a free byte; executions with more loop iterations than the bound are cut
// (a separate harness runs arg_cnt = 255 on a short input)
func vpCutArgCnt(data []byte, at int) {
	if len(data) > at {
		vpAssume(data[at] <= uint8(vpBound("c04args", 3)))
	}
}

func vpH_C04_AuthorRequest_Decode() {
	data := vpC04Input()
	vpCutArgCnt(data, 7)
	a0 := vpAllocBytes()
	var a AuthorRequest
	err := Unmarshal(data, &a)
	vpAllocOK(a0, vpAllocBytes(), len(data), "C04.AuthorRequest.alloc")
	if err != nil {
		vpReach("C04.AuthorRequest.refused")
		return
	}
	vpReach("C04.AuthorRequest.decoded")
	vpAssert(a.Validate() == nil, "C04.AuthorRequest.valid")
	c, u, p, r := len(a.Args), len(a.User), len(a.Port), len(a.RemAddr)
	vpFieldAt(data, 8+c, string(a.User), "C04.AuthorRequest.user")
	vpFieldAt(data, 8+c+u, string(a.Port), "C04.AuthorRequest.port")
	vpFieldAt(data, 8+c+u+p, string(a.RemAddr), "C04.AuthorRequest.rem_addr")
	vpArgsAt(data, 8+c+u+p+r, a.Args, "C04.AuthorRequest.arg")
}

func vpH_C04_AuthorReply_Decode() {
	data := vpC04Input()
	vpCutArgCnt(data, 1)
	a0 := vpAllocBytes()
	var a AuthorReply
	err := Unmarshal(data, &a)
	vpAllocOK(a0, vpAllocBytes(), len(data), "C04.AuthorReply.alloc")
	if err != nil {
		vpReach("C04.AuthorReply.refused")
		return
	}
	vpReach("C04.AuthorReply.decoded")
	vpAssert(a.Validate() == nil, "C04.AuthorReply.valid")
	c, m, d := len(a.Args), len(a.ServerMsg), len(a.Data)
	vpFieldAt(data, 6+c, string(a.ServerMsg), "C04.AuthorReply.server_msg")
	vpFieldAt(data, 6+c+m, string(a.Data), "C04.AuthorReply.data")
	vpArgsAt(data, 6+c+m+d, a.Args, "C04.AuthorReply.arg")
}

func vpH_C04_AcctRequest_Decode() {
	data := vpC04Input()
	vpCutArgCnt(data, 8)
	a0 := vpAllocBytes()
	var a AcctRequest
	err := Unmarshal(data, &a)
	vpAllocOK(a0, vpAllocBytes(), len(data), "C04.AcctRequest.alloc")
	if err != nil {
		vpReach("C04.AcctRequest.refused")
		return
	}
	vpReach("C04.AcctRequest.decoded")
	vpAssert(a.Validate() == nil, "C04.AcctRequest.valid")
	c, u, p, r := len(a.Args), len(a.User), len(a.Port), len(a.RemAddr)
	vpFieldAt(data, 9+c, string(a.User), "C04.AcctRequest.user")
	vpFieldAt(data, 9+c+u, string(a.Port), "C04.AcctRequest.port")
	vpFieldAt(data, 9+c+u+p, string(a.RemAddr), "C04.AcctRequest.rem_addr")
	vpArgsAt(data, 9+c+u+p+r, a.Args, "C04.AcctRequest.arg")
}

func vpH_C04_AcctReply_Decode() {
	data := vpC04Input()
	a0 := vpAllocBytes()
	var a AcctReply
	err := Unmarshal(data, &a)
	vpAllocOK(a0, vpAllocBytes(), len(data), "C04.AcctReply.alloc")
	if err != nil {
		vpReach("C04.AcctReply.refused")
		return
	}
	vpReach("C04.AcctReply.decoded")
	vpAssert(a.Validate() == nil, "C04.AcctReply.valid")
	vpFieldAt(data, 5, string(a.ServerMsg), "C04.AcctReply.server_msg")
	vpFieldAt(data, 5+len(a.ServerMsg), string(a.Data), "C04.AcctReply.data")
}

// arg_cnt = 255 on a short input: the decoders must neither panic nor allocate by arg_cnt squared
func vpH_C04_ArgCnt255__3(c int) {
	body := vpBytesN(vpInt(0, 4))
	a0 := vpAllocBytes()
	var err error
	var n int
	switch c {
	case 0:
		data := append([]byte{6, 1, 1, 1, 0, 0, 0, 255}, body...)
		n = len(data)
		var a AuthorRequest
		err = Unmarshal(data, &a)
	case 1:
		data := append([]byte{1, 255, 0, 0, 0, 0}, body...)
		n = len(data)
		var a AuthorReply
		err = Unmarshal(data, &a)
	case 2:
		data := append([]byte{2, 6, 1, 1, 1, 0, 0, 0, 255}, body...)
		n = len(data)
		var a AcctRequest
		err = Unmarshal(data, &a)
	}
	vpAllocOK(a0, vpAllocBytes(), n, "C04.ArgCnt255.alloc")
	if c < 2 {
		// 255 announced arguments cannot all have the minimum length of 2 in such a short input
		vpAssert(err != nil, "C04.ArgCnt255.refused")
	}
	vpReach("C04.ArgCnt255.end")
}

// Request.Fields and the bad-secret detector try every decoder of the header type on
// attacker-controlled bytes
func vpH_C04_Fields__3(c int) {
	data := vpC04Input()
	vpCutArgCnt(data, 7)
	vpCutArgCnt(data, 1)
	vpCutArgCnt(data, 8)
	h := Header{Version: Version{MajorVersion: 0xc, MinorVersion: vpU8() & 1}, Type: HeaderType(c + 1), SeqNo: 1, SessionID: SessionID(vpU32()), Length: uint32(len(data))}
	r := Request{Header: h, Body: data}
	m := r.Fields()
	if m != nil {
		vpReach("C04.Fields.some")
		_, ok := m["packet-type"]
		vpAssert(ok, "C04.Fields.has-packet-type")
	} else {
		vpReach("C04.Fields.none")
	}
}

func vpH_C04_DetectBadSecret__3(c int) {
	data := vpC04Input()
	vpCutArgCnt(data, 7)
	vpCutArgCnt(data, 1)
	vpCutArgCnt(data, 8)
	h := &Header{Version: Version{MajorVersion: 0xc, MinorVersion: vpU8() & 1}, Type: HeaderType(c + 1), SeqNo: SequenceNumber(vpU8() | 1), Flags: HeaderFlag(vpU8()), SessionID: SessionID(vpU32()), Length: uint32(len(data))}
	cr := crypter{secret: []byte("k")}
	reply, err := cr.detectBadSecret(&Packet{Header: h, Body: data})
	vpAssert(err == nil, "C04.Detect.no-internal-error")
	if reply != nil {
		vpReach("C04.Detect.flagged")
		vpAssert(reply.Header != nil, "C04.Detect.reply-header")
		vpAssert(len(reply.Body) <= 32, "C04.Detect.reply-small")
	} else {
		vpReach("C04.Detect.clean")
	}
}
