//go:build verif

package tacquito

// C02 — encode/decode is lossless; unrepresentable values are refused, not mangled.
//   RoundTrip:   a value that encodes decodes back to an identical value
//   DecodeFirst: bytes that decode re-encode to bytes that decode to the same value
//   Refuse:      a field that does not fit its wire length field makes MarshalBinary fail
// Identity: scalar fields equal, text fields / argument lists equal as byte sequences
// (nil and empty argument lists are the same value).

func vpSameAuthenStart(a, b *AuthenStart, n int, id string) {
	vpAssert(a.Action == b.Action, id+".action")
	vpAssert(a.PrivLvl == b.PrivLvl, id+".priv")
	vpAssert(a.Type == b.Type, id+".type")
	vpAssert(a.Service == b.Service, id+".service")
	vpSameStr(string(a.User), string(b.User), n, id+".user")
	vpSameStr(string(a.Port), string(b.Port), n, id+".port")
	vpSameStr(string(a.RemAddr), string(b.RemAddr), n, id+".rem_addr")
	vpSameStr(string(a.Data), string(b.Data), n, id+".data")
}

func vpSameAuthenReply(a, b *AuthenReply, n int, id string) {
	vpAssert(a.Status == b.Status, id+".status")
	vpAssert(a.Flags == b.Flags, id+".flags")
	vpSameStr(string(a.ServerMsg), string(b.ServerMsg), n, id+".server_msg")
	vpSameStr(string(a.Data), string(b.Data), n, id+".data")
}

func vpSameAuthenContinue(a, b *AuthenContinue, n int, id string) {
	vpAssert(a.Flags == b.Flags, id+".flags")
	vpSameStr(string(a.UserMessage), string(b.UserMessage), n, id+".user_msg")
	vpSameStr(string(a.Data), string(b.Data), n, id+".data")
}

func vpSameAuthorRequest(a, b *AuthorRequest, n, al int, id string) {
	vpAssert(a.Method == b.Method, id+".method")
	vpAssert(a.PrivLvl == b.PrivLvl, id+".priv")
	vpAssert(a.Type == b.Type, id+".type")
	vpAssert(a.Service == b.Service, id+".service")
	vpSameStr(string(a.User), string(b.User), n, id+".user")
	vpSameStr(string(a.Port), string(b.Port), n, id+".port")
	vpSameStr(string(a.RemAddr), string(b.RemAddr), n, id+".rem_addr")
	vpSameArgs(a.Args, b.Args, al, id)
}

func vpSameAuthorReply(a, b *AuthorReply, n, al int, id string) {
	vpAssert(a.Status == b.Status, id+".status")
	vpSameStr(string(a.ServerMsg), string(b.ServerMsg), n, id+".server_msg")
	vpSameStr(string(a.Data), string(b.Data), n, id+".data")
	vpSameArgs(a.Args, b.Args, al, id)
}

func vpSameAcctRequest(a, b *AcctRequest, n, al int, id string) {
	vpAssert(a.Flags == b.Flags, id+".flags")
	vpAssert(a.Method == b.Method, id+".method")
	vpAssert(a.PrivLvl == b.PrivLvl, id+".priv")
	vpAssert(a.Type == b.Type, id+".type")
	vpAssert(a.Service == b.Service, id+".service")
	vpSameStr(string(a.User), string(b.User), n, id+".user")
	vpSameStr(string(a.Port), string(b.Port), n, id+".port")
	vpSameStr(string(a.RemAddr), string(b.RemAddr), n, id+".rem_addr")
	vpSameArgs(a.Args, b.Args, al, id)
}

func vpSameAcctReply(a, b *AcctReply, n int, id string) {
	vpAssert(a.Status == b.Status, id+".status")
	vpSameStr(string(a.ServerMsg), string(b.ServerMsg), n, id+".server_msg")
	vpSameStr(string(a.Data), string(b.Data), n, id+".data")
}

func vpSameHeader(a, b *Header, id string) {
	vpAssert(a.Version == b.Version, id+".version")
	vpAssert(a.Type == b.Type, id+".type")
	vpAssert(a.SeqNo == b.SeqNo, id+".seq")
	vpAssert(a.SessionID == b.SessionID, id+".sid")
	vpAssert(a.Length == b.Length, id+".length")
}

// ---------------------------------------------------------------- round trips

func vpH_C02_Header_RoundTrip() {
	h := Header{Version: Version{MajorVersion: vpU8(), MinorVersion: vpU8()}, Type: HeaderType(vpU8()), SeqNo: SequenceNumber(vpU16()),
		SessionID: SessionID(vpU32()), Flags: HeaderFlag(vpU8()), Length: vpU32()}
	out, err := h.MarshalBinary()
	if err != nil {
		vpReach("C02.Header.refused")
		return
	}
	var g Header
	err2 := g.UnmarshalBinary(out)
	vpAssert(err2 == nil, "C02.Header.rt-decodes")
	vpSameHeader(&h, &g, "C02.Header.rt")
	want := h.Flags
	if h.SeqNo == 2 {
		want |= SingleConnect // documented decoder behaviour
	}
	vpAssert(g.Flags == want, "C02.Header.rt.flags")
	vpReach("C02.Header.rt.end")
}

func vpH_C02_Header_DecodeFirst() {
	data := vpBytesN(vpInt(0, 13))
	var h Header
	if err := h.UnmarshalBinary(data); err != nil {
		vpReach("C02.Header.df.refused")
		return
	}
	out, err := h.MarshalBinary()
	vpAssert(err == nil, "C02.Header.df-reencodes")
	var g Header
	err2 := g.UnmarshalBinary(out)
	vpAssert(err2 == nil, "C02.Header.df-redecodes")
	vpSameHeader(&h, &g, "C02.Header.df")
	vpAssert(g.Flags == h.Flags, "C02.Header.df.flags")
	vpReach("C02.Header.df.end")
}

func vpH_C02_Packet_RoundTrip() {
	n := vpBound("dtext", 3)
	body := vpBytesN(vpInt(0, n))
	h := &Header{Version: Version{MajorVersion: vpU8(), MinorVersion: vpU8()}, Type: HeaderType(vpU8()), SeqNo: SequenceNumber(vpU16()),
		SessionID: SessionID(vpU32()), Flags: HeaderFlag(vpU8()), Length: uint32(len(body))}
	p := &Packet{Header: h, Body: body}
	out, err := p.MarshalBinary()
	if err != nil {
		vpReach("C02.Packet.refused")
		return
	}
	var q Packet
	err2 := q.UnmarshalBinary(out)
	vpAssert(err2 == nil, "C02.Packet.rt-decodes")
	vpAssert(q.Header != nil, "C02.Packet.rt.header")
	vpSameHeader(h, q.Header, "C02.Packet.rt")
	vpSameStr(string(q.Body), string(body), n, "C02.Packet.rt.body")
	vpReach("C02.Packet.rt.end")
}

func vpH_C02_AuthenStart_RoundTrip() {
	n := vpBound("dtext", 3)
	a := AuthenStart{Action: AuthenAction(vpU8()), PrivLvl: PrivLvl(vpU8()), Type: AuthenType(vpU8()), Service: AuthenService(vpU8()),
		User: AuthenUser(vpStrN(vpInt(0, n))), Port: AuthenPort(vpStrN(vpInt(0, n))), RemAddr: AuthenRemAddr(vpStrN(vpInt(0, n))), Data: AuthenData(vpStrN(vpInt(0, n)))}
	out, err := a.MarshalBinary()
	if err != nil {
		vpReach("C02.AuthenStart.refused")
		return
	}
	var b AuthenStart
	err2 := b.UnmarshalBinary(out)
	vpAssert(err2 == nil, "C02.AuthenStart.rt-decodes")
	vpSameAuthenStart(&a, &b, n, "C02.AuthenStart.rt")
	vpReach("C02.AuthenStart.rt.end")
}

func vpH_C02_AuthenReply_RoundTrip() {
	n := vpBound("dtext", 3)
	a := AuthenReply{Status: AuthenStatus(vpU8()), Flags: AuthenReplyFlag(vpU8()), ServerMsg: AuthenServerMsg(vpStrN(vpInt(0, n))), Data: AuthenData(vpStrN(vpInt(0, n)))}
	out, err := a.MarshalBinary()
	if err != nil {
		vpReach("C02.AuthenReply.refused")
		return
	}
	var b AuthenReply
	err2 := b.UnmarshalBinary(out)
	vpAssert(err2 == nil, "C02.AuthenReply.rt-decodes")
	vpSameAuthenReply(&a, &b, n, "C02.AuthenReply.rt")
	vpReach("C02.AuthenReply.rt.end")
}

func vpH_C02_AuthenContinue_RoundTrip() {
	n := vpBound("dtext", 3)
	a := AuthenContinue{Flags: AuthenContinueFlag(vpU8()), UserMessage: AuthenUserMessage(vpStrN(vpInt(0, n))), Data: AuthenData(vpStrN(vpInt(0, n)))}
	out, err := a.MarshalBinary()
	if err != nil {
		vpReach("C02.AuthenContinue.refused")
		return
	}
	var b AuthenContinue
	err2 := b.UnmarshalBinary(out)
	vpAssert(err2 == nil, "C02.AuthenContinue.rt-decodes")
	vpSameAuthenContinue(&a, &b, n, "C02.AuthenContinue.rt")
	vpReach("C02.AuthenContinue.rt.end")
}

func vpH_C02_AuthorRequest_RoundTrip() {
	n, an, al := vpBound("dtext", 3), vpBound("dargs", 1), vpBound("darglen", 3)
	a := AuthorRequest{Method: AuthenMethod(vpU8()), PrivLvl: PrivLvl(vpU8()), Type: AuthenType(vpU8()), Service: AuthenService(vpU8()),
		User: AuthenUser(vpStrN(vpInt(0, n))), Port: AuthenPort(vpStrN(vpInt(0, n))), RemAddr: AuthenRemAddr(vpStrN(vpInt(0, n))), Args: vpArgListN(an, al)}
	out, err := a.MarshalBinary()
	if err != nil {
		vpReach("C02.AuthorRequest.refused")
		return
	}
	var b AuthorRequest
	err2 := b.UnmarshalBinary(out)
	vpAssert(err2 == nil, "C02.AuthorRequest.rt-decodes")
	vpSameAuthorRequest(&a, &b, n, al, "C02.AuthorRequest.rt")
	vpReach("C02.AuthorRequest.rt.end")
}

func vpH_C02_AuthorReply_RoundTrip() {
	n, an, al := vpBound("dtext", 3), vpBound("dargs", 1), vpBound("darglen", 3)
	a := AuthorReply{Status: AuthorStatus(vpU8()), Args: vpArgListN(an, al), ServerMsg: AuthorServerMsg(vpStrN(vpInt(0, n))), Data: AuthorData(vpStrN(vpInt(0, n)))}
	out, err := a.MarshalBinary()
	if err != nil {
		vpReach("C02.AuthorReply.refused")
		return
	}
	var b AuthorReply
	err2 := b.UnmarshalBinary(out)
	vpAssert(err2 == nil, "C02.AuthorReply.rt-decodes")
	vpSameAuthorReply(&a, &b, n, al, "C02.AuthorReply.rt")
	vpReach("C02.AuthorReply.rt.end")
}

func vpH_C02_AcctRequest_RoundTrip() {
	n, an, al := vpBound("dtext", 3), vpBound("dargs", 1), vpBound("darglen", 3)
	a := AcctRequest{Flags: AcctRequestFlag(vpU8()), Method: AuthenMethod(vpU8()), PrivLvl: PrivLvl(vpU8()), Type: AuthenType(vpU8()), Service: AuthenService(vpU8()),
		User: AuthenUser(vpStrN(vpInt(0, n))), Port: AuthenPort(vpStrN(vpInt(0, n))), RemAddr: AuthenRemAddr(vpStrN(vpInt(0, n))), Args: vpArgListN(an, al)}
	out, err := a.MarshalBinary()
	if err != nil {
		vpReach("C02.AcctRequest.refused")
		return
	}
	var b AcctRequest
	err2 := b.UnmarshalBinary(out)
	vpAssert(err2 == nil, "C02.AcctRequest.rt-decodes")
	vpSameAcctRequest(&a, &b, n, al, "C02.AcctRequest.rt")
	vpReach("C02.AcctRequest.rt.end")
}

func vpH_C02_AcctReply_RoundTrip() {
	n := vpBound("dtext", 3)
	a := AcctReply{Status: AcctReplyStatus(vpU8()), ServerMsg: AcctServerMsg(vpStrN(vpInt(0, n))), Data: AcctData(vpStrN(vpInt(0, n)))}
	out, err := a.MarshalBinary()
	if err != nil {
		vpReach("C02.AcctReply.refused")
		return
	}
	var b AcctReply
	err2 := b.UnmarshalBinary(out)
	vpAssert(err2 == nil, "C02.AcctReply.rt-decodes")
	vpSameAcctReply(&a, &b, n, "C02.AcctReply.rt")
	vpReach("C02.AcctReply.rt.end")
}

// ---------------------------------------------------------------- decode first

func vpH_C02_AuthenStart_DecodeFirst() {
	n := vpBound("dfbytes", 11)
	data := vpBytesN(vpInt(0, n))
	var a AuthenStart
	if err := a.UnmarshalBinary(data); err != nil {
		vpReach("C02.AuthenStart.df.refused")
		return
	}
	out, err := a.MarshalBinary()
	vpAssert(err == nil, "C02.AuthenStart.df-reencodes")
	var b AuthenStart
	err2 := b.UnmarshalBinary(out)
	vpAssert(err2 == nil, "C02.AuthenStart.df-redecodes")
	vpSameAuthenStart(&a, &b, n, "C02.AuthenStart.df")
	vpReach("C02.AuthenStart.df.end")
}

func vpH_C02_AuthenReply_DecodeFirst() {
	n := vpBound("dfbytes", 11)
	data := vpBytesN(vpInt(0, n))
	var a AuthenReply
	if err := a.UnmarshalBinary(data); err != nil {
		vpReach("C02.AuthenReply.df.refused")
		return
	}
	out, err := a.MarshalBinary()
	vpAssert(err == nil, "C02.AuthenReply.df-reencodes")
	var b AuthenReply
	err2 := b.UnmarshalBinary(out)
	vpAssert(err2 == nil, "C02.AuthenReply.df-redecodes")
	vpSameAuthenReply(&a, &b, n, "C02.AuthenReply.df")
	vpReach("C02.AuthenReply.df.end")
}

func vpH_C02_AuthenContinue_DecodeFirst() {
	n := vpBound("dfbytes", 11)
	data := vpBytesN(vpInt(0, n))
	var a AuthenContinue
	if err := a.UnmarshalBinary(data); err != nil {
		vpReach("C02.AuthenContinue.df.refused")
		return
	}
	out, err := a.MarshalBinary()
	vpAssert(err == nil, "C02.AuthenContinue.df-reencodes")
	var b AuthenContinue
	err2 := b.UnmarshalBinary(out)
	vpAssert(err2 == nil, "C02.AuthenContinue.df-redecodes")
	vpSameAuthenContinue(&a, &b, n, "C02.AuthenContinue.df")
	vpReach("C02.AuthenContinue.df.end")
}

func vpH_C02_AuthorRequest_DecodeFirst() {
	n := vpBound("dfbytes", 11)
	data := vpBytesN(vpInt(0, n))
	if len(data) > 7 {
		vpAssume(data[7] <= uint8(vpBound("dfargs", 2)))
	}
	var a AuthorRequest
	if err := a.UnmarshalBinary(data); err != nil {
		vpReach("C02.AuthorRequest.df.refused")
		return
	}
	out, err := a.MarshalBinary()
	vpAssert(err == nil, "C02.AuthorRequest.df-reencodes")
	var b AuthorRequest
	err2 := b.UnmarshalBinary(out)
	vpAssert(err2 == nil, "C02.AuthorRequest.df-redecodes")
	vpSameAuthorRequest(&a, &b, n, n, "C02.AuthorRequest.df")
	vpReach("C02.AuthorRequest.df.end")
}

func vpH_C02_AuthorReply_DecodeFirst() {
	n := vpBound("dfbytes", 11)
	data := vpBytesN(vpInt(0, n))
	if len(data) > 1 {
		vpAssume(data[1] <= uint8(vpBound("dfargs", 2)))
	}
	var a AuthorReply
	if err := a.UnmarshalBinary(data); err != nil {
		vpReach("C02.AuthorReply.df.refused")
		return
	}
	out, err := a.MarshalBinary()
	vpAssert(err == nil, "C02.AuthorReply.df-reencodes")
	var b AuthorReply
	err2 := b.UnmarshalBinary(out)
	vpAssert(err2 == nil, "C02.AuthorReply.df-redecodes")
	vpSameAuthorReply(&a, &b, n, n, "C02.AuthorReply.df")
	vpReach("C02.AuthorReply.df.end")
}

func vpH_C02_AcctRequest_DecodeFirst() {
	n := vpBound("dfbytes", 11)
	data := vpBytesN(vpInt(0, n))
	if len(data) > 8 {
		vpAssume(data[8] <= uint8(vpBound("dfargs", 2)))
	}
	var a AcctRequest
	if err := a.UnmarshalBinary(data); err != nil {
		vpReach("C02.AcctRequest.df.refused")
		return
	}
	out, err := a.MarshalBinary()
	vpAssert(err == nil, "C02.AcctRequest.df-reencodes")
	var b AcctRequest
	err2 := b.UnmarshalBinary(out)
	vpAssert(err2 == nil, "C02.AcctRequest.df-redecodes")
	vpSameAcctRequest(&a, &b, n, n, "C02.AcctRequest.df")
	vpReach("C02.AcctRequest.df.end")
}

func vpH_C02_AcctReply_DecodeFirst() {
	n := vpBound("dfbytes", 11)
	data := vpBytesN(vpInt(0, n))
	var a AcctReply
	if err := a.UnmarshalBinary(data); err != nil {
		vpReach("C02.AcctReply.df.refused")
		return
	}
	out, err := a.MarshalBinary()
	vpAssert(err == nil, "C02.AcctReply.df-reencodes")
	var b AcctReply
	err2 := b.UnmarshalBinary(out)
	vpAssert(err2 == nil, "C02.AcctReply.df-redecodes")
	vpSameAcctReply(&a, &b, n, "C02.AcctReply.df")
	vpReach("C02.AcctReply.df.end")
}

// ---------------------------------------------------------------- refusal at the wire width

var vpLen8 = []int{255, 256, 300}

// an ASCII text of exactly n free bytes
func vpASCIIN(n int) string {
	s := vpStrN(n)
	vpAssume(vpIsASCII(s))
	return s
}

// c selects (field, length): 4 one-octet-length fields x 3 lengths
func vpH_C02_AuthenStart_Refuse__12(c int) {
	l := vpLen8[c/4]
	a := AuthenStart{Action: AuthenActionLogin, PrivLvl: PrivLvl(vpU8() & 15), Type: AuthenTypeASCII, Service: AuthenServiceLogin}
	switch c % 4 {
	case 0:
		a.User = AuthenUser(vpASCIIN(l))
	case 1:
		a.Port = AuthenPort(vpASCIIN(l))
	case 2:
		a.RemAddr = AuthenRemAddr(vpASCIIN(l))
	case 3:
		a.Data = AuthenData(vpASCIIN(l))
	}
	out, err := a.MarshalBinary()
	if l > 255 {
		vpAssert(err != nil, "C02.AuthenStart.refuse-overlong")
		vpAssert(out == nil, "C02.AuthenStart.refuse-nobytes")
	} else {
		vpAssert(err == nil, "C02.AuthenStart.accept-255")
	}
	vpReach("C02.AuthenStart.refuse.end")
}

func vpH_C02_AuthorRequest_Refuse__9(c int) {
	l := vpLen8[c/3]
	a := AuthorRequest{Method: AuthenMethodTacacsPlus, PrivLvl: PrivLvl(vpU8() & 15), Type: AuthenTypeASCII, Service: AuthenServiceLogin}
	switch c % 3 {
	case 0:
		a.User = AuthenUser(vpASCIIN(l))
	case 1:
		a.Port = AuthenPort(vpASCIIN(l))
	case 2:
		a.RemAddr = AuthenRemAddr(vpASCIIN(l))
	}
	out, err := a.MarshalBinary()
	if l > 255 {
		vpAssert(err != nil, "C02.AuthorRequest.refuse-overlong")
		vpAssert(out == nil, "C02.AuthorRequest.refuse-nobytes")
	} else {
		vpAssert(err == nil, "C02.AuthorRequest.accept-255")
	}
	vpReach("C02.AuthorRequest.refuse.end")
}

func vpH_C02_AcctRequest_Refuse__9(c int) {
	l := vpLen8[c/3]
	a := AcctRequest{Flags: AcctFlagStart, Method: AuthenMethodTacacsPlus, PrivLvl: PrivLvl(vpU8() & 15), Type: AuthenTypeASCII, Service: AuthenServiceLogin}
	switch c % 3 {
	case 0:
		a.User = AuthenUser(vpASCIIN(l))
	case 1:
		a.Port = AuthenPort(vpASCIIN(l))
	case 2:
		a.RemAddr = AuthenRemAddr(vpASCIIN(l))
	}
	out, err := a.MarshalBinary()
	if l > 255 {
		vpAssert(err != nil, "C02.AcctRequest.refuse-overlong")
		vpAssert(out == nil, "C02.AcctRequest.refuse-nobytes")
	} else {
		vpAssert(err == nil, "C02.AcctRequest.accept-255")
	}
	vpReach("C02.AcctRequest.refuse.end")
}

// argument count 255 / 256 / 257 (two-byte arguments) and an argument of 255 / 256 bytes
func vpManyArgs(n int) Args {
	args := make(Args, 0, n)
	for i := 0; i < n; i++ {
		args = append(args, Arg("a="))
	}
	return args
}

func vpH_C02_Args_Refuse__9(c int) {
	cnt := []int{255, 256, 257}[c%3]
	var out []byte
	var err error
	switch c / 3 {
	case 0:
		a := AuthorRequest{Method: AuthenMethodTacacsPlus, Type: AuthenTypeASCII, Service: AuthenServiceLogin, Args: vpManyArgs(cnt)}
		out, err = a.MarshalBinary()
	case 1:
		a := AuthorReply{Status: AuthorStatusPassAdd, Args: vpManyArgs(cnt)}
		out, err = a.MarshalBinary()
	case 2:
		a := AcctRequest{Flags: AcctFlagStart, Method: AuthenMethodTacacsPlus, Type: AuthenTypeASCII, Service: AuthenServiceLogin, Args: vpManyArgs(cnt)}
		out, err = a.MarshalBinary()
	}
	if cnt > 255 {
		vpAssert(err != nil, "C02.Args.refuse-too-many")
		vpAssert(out == nil, "C02.Args.refuse-nobytes")
	} else {
		vpAssert(err == nil, "C02.Args.accept-255")
	}
	vpReach("C02.Args.refuse.end")
}

func vpH_C02_ArgLen_Refuse__6(c int) {
	l := []int{255, 256}[c%2]
	arg := Arg(vpASCIIN(l))
	var err error
	switch c / 2 {
	case 0:
		a := AuthorRequest{Method: AuthenMethodTacacsPlus, Type: AuthenTypeASCII, Service: AuthenServiceLogin, Args: Args{arg}}
		_, err = a.MarshalBinary()
	case 1:
		a := AuthorReply{Status: AuthorStatusPassAdd, Args: Args{arg}}
		_, err = a.MarshalBinary()
	case 2:
		a := AcctRequest{Flags: AcctFlagStart, Method: AuthenMethodTacacsPlus, Type: AuthenTypeASCII, Service: AuthenServiceLogin, Args: Args{arg}}
		_, err = a.MarshalBinary()
	}
	if l > 255 {
		vpAssert(err != nil, "C02.ArgLen.refuse-overlong")
	} else {
		vpAssert(err == nil, "C02.ArgLen.accept-255")
	}
	vpReach("C02.ArgLen.refuse.end")
}

// 16-bit length fields.  AuthenReply validates no text: its lengths stay fully symbolic
// (any length up to 70000).
func vpH_C02_AuthenReply_Refuse__2(c int) {
	a := AuthenReply{Status: AuthenStatusFail}
	long := vpStr(70000)
	if c == 0 {
		a.ServerMsg = AuthenServerMsg(long)
	} else {
		a.Data = AuthenData(long)
	}
	out, err := a.MarshalBinary()
	vpAssert(vpImp(len(long) > 65535, err != nil), "C02.AuthenReply.refuse-overlong")
	vpAssert(vpImp(len(long) > 65535, out == nil), "C02.AuthenReply.refuse-nobytes")
	vpAssert(vpImp(len(long) <= 65535, err == nil), "C02.AuthenReply.accept-fits")
	vpReach("C02.AuthenReply.refuse.end")
}

// AuthenContinue.Data is not validated per byte either
func vpH_C02_AuthenContinue_RefuseData() {
	long := vpStr(70000)
	a := AuthenContinue{Data: AuthenData(long)}
	out, err := a.MarshalBinary()
	vpAssert(vpImp(len(long) > 65535, err != nil), "C02.AuthenContinue.refuse-overlong-data")
	vpAssert(vpImp(len(long) > 65535, out == nil), "C02.AuthenContinue.refuse-nobytes")
	vpAssert(vpImp(len(long) <= 65535, err == nil), "C02.AuthenContinue.accept-fits")
	vpReach("C02.AuthenContinue.refusedata.end")
}

// fields validated per byte: concretised lengths on both sides of 65535, fixed ASCII content
func vpH_C02_Text16_Refuse__10(c int) {
	l := []int{65535, 65536}[c%2]
	long := vpConstStr(l, 'x')
	var out []byte
	var err error
	switch c / 2 {
	case 0:
		a := AuthenContinue{UserMessage: AuthenUserMessage(long)}
		out, err = a.MarshalBinary()
	case 1:
		a := AuthorReply{Status: AuthorStatusFail, ServerMsg: AuthorServerMsg(long)}
		out, err = a.MarshalBinary()
	case 2:
		a := AuthorReply{Status: AuthorStatusFail, Data: AuthorData(long)}
		out, err = a.MarshalBinary()
	case 3:
		a := AcctReply{Status: AcctReplyStatusSuccess, ServerMsg: AcctServerMsg(long)}
		out, err = a.MarshalBinary()
	case 4:
		a := AcctReply{Status: AcctReplyStatusSuccess, Data: AcctData(long)}
		out, err = a.MarshalBinary()
	}
	if l > 65535 {
		vpAssert(err != nil, "C02.Text16.refuse-overlong")
		vpAssert(out == nil, "C02.Text16.refuse-nobytes")
	} else {
		vpAssert(err == nil, "C02.Text16.accept-65535")
	}
	vpReach("C02.Text16.refuse.end")
}

// values breaking the type's own rules are refused
func vpH_C02_Invalid_Refuse() {
	// enumerations
	v := vpU8()
	{
		a := AuthenStart{Action: AuthenAction(v), Type: AuthenTypeASCII, Service: AuthenServiceLogin}
		_, err := a.MarshalBinary()
		vpAssert(vpImp(!vpInSet(v, 1, 2, 4), err != nil), "C02.Invalid.action")
	}
	{
		a := AuthenStart{Action: AuthenActionLogin, Type: AuthenType(v), Service: AuthenServiceLogin}
		_, err := a.MarshalBinary()
		vpAssert(vpImp(vpOr(v == 0, v > 6), err != nil), "C02.Invalid.authen_type")
	}
	{
		a := AuthenReply{Status: AuthenStatus(v)}
		_, err := a.MarshalBinary()
		vpAssert(vpImp(vpOr(v == 0, v > 7), err != nil), "C02.Invalid.authen_status")
	}
	{
		a := AuthorReply{Status: AuthorStatus(v)}
		_, err := a.MarshalBinary()
		vpAssert(vpImp(!vpInSet(v, 1, 2, 16, 17), err != nil), "C02.Invalid.author_status")
	}
	{
		a := AcctRequest{Flags: AcctRequestFlag(v), Method: AuthenMethodTacacsPlus, Type: AuthenTypeASCII, Service: AuthenServiceLogin}
		_, err := a.MarshalBinary()
		vpAssert(vpImp(v&0x0c == 0x0c, err != nil), "C02.Invalid.stop+watchdog")
	}
	{
		h := Header{Version: Version{MajorVersion: 0xc, MinorVersion: 0}, Type: Authenticate, SeqNo: SequenceNumber(vpU16()), Length: vpU32()}
		_, err := h.MarshalBinary()
		vpAssert(vpImp(vpOr(h.SeqNo == 0, h.SeqNo > 255), err != nil), "C02.Invalid.seq")
		vpAssert(vpImp(h.Length > 65536, err != nil), "C02.Invalid.length")
	}
	// non-ASCII text, too short argument
	s := vpStrN(2)
	{
		a := AuthorRequest{Method: AuthenMethodTacacsPlus, Type: AuthenTypeASCII, Service: AuthenServiceLogin, User: AuthenUser(s)}
		_, err := a.MarshalBinary()
		vpAssert(vpImp(!vpIsASCII(s), err != nil), "C02.Invalid.non-ascii-user")
	}
	{
		a := AuthorReply{Status: AuthorStatusPassAdd, Args: Args{Arg(vpStrN(1))}}
		_, err := a.MarshalBinary()
		vpAssert(err != nil, "C02.Invalid.short-arg")
	}
	vpReach("C02.Invalid.end")
}
