//go:build verif

package tacquito

// Harness-side mocks: connection, listener, logger, handler, context.  Their nondeterminism
// comes from vp* calls, so schedules and faults are tape slots like any other input.

import (
	"context"
	"io"
	"net"
	"time"
)

type vpAddr struct{ s string }

func (a vpAddr) Network() string { return "tcp" }
func (a vpAddr) String() string  { return a.s }

type vpTimeoutErr struct{}

func (vpTimeoutErr) Error() string   { return "i/o timeout" }
func (vpTimeoutErr) Timeout() bool   { return true }
func (vpTimeoutErr) Temporary() bool { return true }

// vpConn is a scripted net.Conn.
type vpConn struct {
	in                []byte // the byte stream to deliver
	pos               int
	whole             []int // when non-nil: deliver exactly these chunk sizes, one per Read
	chunk             int
	segment           bool // symbolic segmentation: each Read returns 1..min(len(p), remaining) bytes
	cut               int  // the stream ends (EOF) or stalls (timeout) at this offset; -1 = no cut
	cutStall          bool
	resume            bool // after one timeout at the cut the stream goes on (a slow client)
	stalled           bool
	timeouts          int
	readsAfterTimeout int
	reads             int
	maxReads          int
	out               [][]byte
	closes            int
	// deadline bookkeeping (C17)
	deadlineSet   int // number of SetReadDeadline calls
	armed         bool
	readsUnarmed  int
	zeroDeadlines int
	badDeadlines  int
	// event order (C07, C12)
	log  *vpEventLog
	hook func() // called at every Read and Close
}

type vpEventLog struct {
	events []string
}

func (l *vpEventLog) add(s string) {
	if l != nil {
		l.events = append(l.events, s)
	}
}

func newVPConn(in []byte) *vpConn {
	return &vpConn{in: in, cut: -1, maxReads: 1 << 30}
}

func (c *vpConn) Read(p []byte) (int, error) {
	c.reads++
	vpAssume(c.reads <= c.maxReads)     // stated schedule bound
	c.readsUnarmed += vpCount(!c.armed) // no finite deadline is in force for this read
	c.log.add("read")
	if c.timeouts > 0 {
		c.readsAfterTimeout++
	}
	if c.hook != nil {
		c.hook()
	}
	end := len(c.in)
	if c.cut >= 0 && c.cut < end && !(c.resume && c.stalled) {
		end = c.cut
	}
	if c.pos >= end {
		if c.cut >= 0 && c.cutStall {
			c.stalled = true
			c.timeouts++
			return 0, vpTimeoutErr{}
		}
		return 0, io.EOF
	}
	rem := end - c.pos
	n := rem
	if len(p) < n {
		n = len(p)
	}
	if c.whole != nil {
		if c.chunk < len(c.whole) && c.whole[c.chunk] < n {
			n = c.whole[c.chunk]
		}
		c.chunk++
	} else if c.segment {
		n = vpIntC(1, n)
	}
	copy(p, c.in[c.pos:c.pos+n])
	c.pos += n
	return n, nil
}

func (c *vpConn) Write(p []byte) (int, error) {
	cp := make([]byte, len(p))
	copy(cp, p)
	c.out = append(c.out, cp)
	c.log.add("write")
	return len(p), nil
}

func (c *vpConn) Close() error {
	c.closes++
	c.log.add("close")
	if c.hook != nil {
		c.hook()
	}
	return nil
}

func (c *vpConn) LocalAddr() net.Addr  { return vpAddr{"192.0.2.1:49"} }
func (c *vpConn) RemoteAddr() net.Addr { return vpAddr{"192.0.2.7:40000"} }

func (c *vpConn) SetDeadline(t time.Time) error      { return nil }
func (c *vpConn) SetWriteDeadline(t time.Time) error { return nil }
func (c *vpConn) SetReadDeadline(t time.Time) error {
	c.deadlineSet++
	zero := t.IsZero()
	c.armed = !zero // a deadline is absolute: it stays in force until it is changed
	c.zeroDeadlines += vpCount(zero)
	// the loop arms now+15s: anything in the past or further away is not the intended deadline
	d := time.Until(t)
	c.badDeadlines += vpCount(vpAnd(!zero, vpOr(d <= 0, d > 16*time.Second)))
	return nil
}

// vpLogger implements loggerProvider and records nothing but counts.
type vpLogger struct {
	infos, errors, debugs, records int
}

func (l *vpLogger) Infof(ctx context.Context, format string, args ...interface{})  { l.infos++ }
func (l *vpLogger) Errorf(ctx context.Context, format string, args ...interface{}) { l.errors++ }
func (l *vpLogger) Debugf(ctx context.Context, format string, args ...interface{}) { l.debugs++ }
func (l *vpLogger) Record(ctx context.Context, r map[string]string, obscure ...string) {
	l.records++
}

// vpCtx is a context whose cancellation is decided by the harness.
type vpCtx struct {
	done chan struct{}
	off  bool
}

func newVPCtx() *vpCtx { return &vpCtx{done: make(chan struct{})} }

func (c *vpCtx) cancel() {
	if !c.off {
		c.off = true
		close(c.done)
	}
}
func (c *vpCtx) Deadline() (time.Time, bool) { return time.Time{}, false }
func (c *vpCtx) Done() <-chan struct{}       { return c.done }
func (c *vpCtx) Err() error {
	if c.off {
		return context.Canceled
	}
	return nil
}
func (c *vpCtx) Value(key interface{}) interface{} { return nil }

// vpHeaderBytes lays a header out per RFC 8907 4.1 (harness-side statement of the layout).
func vpHeaderBytes(minor, typ, seq, flags uint8, sid uint32, ln int) []byte {
	return []byte{0xc0 | minor, typ, seq, flags,
		byte(sid >> 24), byte(sid >> 16), byte(sid >> 8), byte(sid),
		byte(ln >> 24), byte(ln >> 16), byte(ln >> 8), byte(ln)}
}
