//go:build verif

package tacquito

// C07 (library loop), C17 (shutdown / read deadline), C20 (serve level gauges).

import (
	"context"
	"errors"
	"net"
	"time"
)

// ---------------------------------------------------------------- C07 L1

// vpH_C07_loop: k requests with free headers (valid and invalid), unencrypted; scripted handlers.
// For an accepted request: exactly one handler invocation and exactly one packet written before
// the next read (none iff its sequence number is 255 and the reply is not a RESTART).  For the
// first rejected request: no handler for it or anything after it, at most one packet written
// after its arrival, connection closed, loop terminated.
func vpH_C07_loop() {
	k := vpBound("packets", 2)
	sidA, sidB := vpU32(), vpU32()
	vpAssume(sidA != sidB)
	var in []byte
	type hdr struct {
		ver, typ, seq, flags uint8
		sid                  uint32
		ln                   uint32
	}
	var hs []hdr
	nsetup := 0
	if vpBound("setup", 0) > 0 && vpBool() {
		// a well-formed first request on session A whose handler registers a continuation
		nsetup = 1
		hs = append(hs, hdr{ver: 0xc0, typ: 1, seq: 1, flags: 1, sid: sidA})
		in = append(in, vpHeaderBytes(0, 1, 1, 1, sidA, 0)...)
	}
	for i := 0; i < k; i++ {
		h := hdr{ver: 0xc0 | (vpU8() & 0x31), typ: vpU8() & 7, seq: vpU8(), flags: vpU8() | 1, sid: sidA}
		if vpBool() {
			h.sid = sidB
		}
		body := vpBytesN(vpInt(0, 2))
		h.ln = uint32(len(body))
		if vpBool() {
			h.ln = vpU32() // a length that need not match what follows
		}
		hs = append(hs, h)
		in = append(in, h.ver, h.typ, h.seq, h.flags, byte(h.sid>>24), byte(h.sid>>16), byte(h.sid>>8), byte(h.sid),
			byte(h.ln>>24), byte(h.ln>>16), byte(h.ln>>8), byte(h.ln))
		in = append(in, body...)
	}
	conn := newVPConn(in)
	conn.log = &vpEventLog{}
	w := newVPWorld(conn)
	w.setup = nsetup
	vpRunLoop(in, w)
	vpAssert(conn.closes == 1, "C07.loop.closed-exactly-once")
	// event pattern: after a handler invocation at most one packet is written before the next
	// request is dispatched (connection-level reads do not delimit requests: the buffered reader
	// may have the next request already)
	writesSince := 0
	for _, e := range conn.log.events {
		switch e {
		case "handle":
			writesSince = 0
		case "write":
			writesSince++
			vpAssert(writesSince <= 1, "C07.loop.at-most-one-packet-per-request")
		}
	}
	for i := range w.invokes {
		want := 1
		if w.invokes[i].seq == 255 && !w.restarts[i] {
			want = 0
		}
		vpAssert(w.wrote[i] == want, "C07.loop.one-reply-per-accepted-request")
	}
	// a request with an invalid header is never dispatched
	for i := range w.invokes {
		if i < len(hs) {
			h := hs[i]
			vpAssert(h.ver == 0xc0 || h.ver == 0xc1, "C07.loop.dispatched-only-valid-version")
			vpAssert(h.typ >= 1 && h.typ <= 3, "C07.loop.dispatched-only-valid-type")
			vpAssert(h.seq%2 == 1, "C07.loop.dispatched-only-odd")
			vpAssert(h.ln <= 65536, "C07.loop.dispatched-only-length-in-range")
		}
	}
	vpAssert(len(conn.out) <= len(w.invokes)+1, "C07.loop.at-most-one-extra-packet")
	vpReach("C07.loop.end")
}

// ---------------------------------------------------------------- C17

// vpH_C17_handle: stream with an EOF or a stall (timeout) at a symbolic offset and cancellation
// at a symbolic read.  A finite deadline is armed before every read, the context is polled before
// every read, and any read error closes the connection.
func vpH_C17_handle() {
	k := vpBound("packets", 2)
	_, in := vpStream(k)
	conn := newVPConn(in)
	conn.cut = vpInt(0, len(in))
	conn.cutStall = vpBool()
	ctx := newVPCtx()
	cancelAt := vpInt(0, 6)
	readsAfterCancel := 0
	w := newVPWorld(conn)
	w.mode = vpReplyNoRestart
	conn.hook = func() {
		if ctx.off {
			readsAfterCancel++
		}
		if conn.reads == cancelAt {
			ctx.cancel()
		}
	}
	s := NewServer(&vpLogger{}, nil)
	s.handle(ctx, newCrypter([]byte("k"), conn, false), &vpHandler{w: w, id: 0})
	vpAssert(conn.closes == 1, "C17.handle.closed-on-exit")
	vpAssert(conn.readsUnarmed == 0, "C17.handle.deadline-armed-before-every-read")
	vpAssert(conn.zeroDeadlines == 0, "C17.handle.deadline-is-finite")
	vpAssert(conn.badDeadlines == 0, "C17.handle.deadline-in-the-future-and-bounded")
	// the deadline is re-armed for every packet read: one per dispatched request, plus one for
	// the read that ended the loop unless the loop ended by cancellation
	if ctx.off {
		vpAssert(conn.deadlineSet >= len(w.invokes), "C17.handle.deadline-rearmed-per-packet")
	} else {
		vpAssert(conn.deadlineSet == len(w.invokes)+1, "C17.handle.deadline-rearmed-per-packet")
	}
	// bufio may issue one more Read inside the packet that was being read when the context was
	// cancelled; after that packet no read may start.  With at most 12+2 bytes per packet and
	// whole-packet delivery the packet in flight needs at most 1 further read.
	vpAssert(readsAfterCancel <= 2, "C17.handle.context-polled-before-reads")
	vpObserveInt("reads", conn.reads)
	vpReach("C17.handle.end")
}

type vpListener struct {
	conns      []*vpConn
	next       int
	ctx        *vpCtx
	closed     int
	accepts    int
	maxAccept  int
	deadlines  int
	log        *vpEventLog
	closeFails bool
	permanent  bool
}

type vpTempErr struct{}

func (vpTempErr) Error() string   { return "too many open files" }
func (vpTempErr) Timeout() bool   { return false }
func (vpTempErr) Temporary() bool { return true }

func (l *vpListener) Accept() (net.Conn, error) {
	l.accepts++
	vpAssume(l.accepts <= l.maxAccept)
	switch vpInt(0, 4) {
	case 4:
		// a temporary error that is not a timeout (EMFILE under load): the server keeps accepting
		return nil, &net.OpError{Op: "accept", Net: "tcp", Err: vpTempErr{}}
	case 0:
		if l.next < len(l.conns) {
			c := l.conns[l.next]
			l.next++
			l.log.add("accept")
			return c, nil
		}
		return nil, &net.OpError{Op: "accept", Net: "tcp", Err: vpTimeoutErr{}}
	case 1:
		return nil, &net.OpError{Op: "accept", Net: "tcp", Err: vpTimeoutErr{}}
	case 2:
		l.permanent = true
		return nil, &net.OpError{Op: "accept", Net: "tcp", Err: errors.New("use of closed network connection")}
	}
	l.ctx.cancel()
	return nil, &net.OpError{Op: "accept", Net: "tcp", Err: vpTimeoutErr{}}
}

func (l *vpListener) Close() error {
	l.closed++
	l.log.add("listener-close")
	if l.closeFails {
		return errors.New("use of closed network connection")
	}
	return nil
}
func (l *vpListener) Addr() net.Addr                { return vpAddr{"192.0.2.1:49"} }
func (l *vpListener) SetDeadline(t time.Time) error { l.deadlines++; return nil }

type vpSecrets struct {
	refuse bool
	quiet  bool
	h      Handler
	gets   int
}

func (p *vpSecrets) Get(ctx context.Context, remote net.Addr) ([]byte, Handler, error) {
	p.gets++
	if p.refuse {
		if p.quiet {
			return nil, nil, nil // a provider that refuses without an error
		}
		return nil, nil, errors.New("no provider matches")
	}
	return []byte("k"), p.h, nil
}

// vpH_C17_serve: the whole Serve with up to two connections (served or refused), cancellation
// or a permanent accept error at a symbolic point, child goroutines started eagerly or lazily.
func vpH_C17_serve() {
	vpLazyGo(vpBool())
	log := &vpEventLog{}
	nconn := vpInt(0, vpBound("conns", 1))
	var conns []*vpConn
	for i := 0; i < nconn; i++ {
		_, in := vpStream(1)
		c := newVPConn(in)
		if vpBool() {
			c.cut = vpInt(0, len(in))
			c.cutStall = true // idle / mid-packet client: the read deadline fires
		}
		c.log = log
		conns = append(conns, c)
	}
	ctx := newVPCtx()
	ln := &vpListener{conns: conns, ctx: ctx, maxAccept: vpBound("accepts", 3), log: log, closeFails: vpBool()}
	w := newVPWorld(newVPConn(nil))
	w.mode = vpReplyNoRestart
	handlerRuns := 0
	sp := &vpSecrets{refuse: vpBool(), quiet: vpBool(), h: HandlerFunc(func(resp Response, req Request) {
		handlerRuns++
		log.add("handler")
		resp.Reply(NewAcctReply(SetAcctReplyStatus(AcctReplyStatusSuccess)))
	})}
	s := NewServer(&vpLogger{}, sp)
	a0 := vpMetric("tacquito_serve_accepted")
	g0 := vpMetric("tacquito_waitgroup_handle_routines_active")
	s0 := vpMetric("tacquito_sessions_active")
	err := s.Serve(ctx, ln)
	log.add("serve-returned")
	vpAssert(!vpBlocked(), "C17.serve.returns")
	vpAssert(err == nil, "C17.serve.no-error")
	vpAssert(ctx.off || ln.permanent, "C14.serve-survives-temporary-accept-errors")
	vpAssert(ln.closed == 1, "C17.serve.listener-closed")
	for i := 0; i < ln.next; i++ {
		vpAssert(conns[i].closes >= 1, "C17.serve.every-accepted-connection-closed-before-return")
	}
	if sp.refuse {
		vpAssert(handlerRuns == 0, "C17.serve.refused-connection-runs-no-handler")
		for i := 0; i < ln.next; i++ {
			vpAssert(len(conns[i].out) == 0, "C17.serve.refused-connection-gets-no-bytes")
			vpAssert(conns[i].reads == 0, "C17.serve.refused-connection-is-not-read")
		}
	}
	for i := 0; i < ln.next; i++ {
		vpAssert(conns[i].readsUnarmed == 0, "C17.serve.deadline-armed-before-every-read")
	}
	// nothing happens after Serve returned
	seenReturn := false
	for _, e := range log.events {
		if e == "serve-returned" {
			seenReturn = true
		} else if seenReturn {
			vpAssert(false, "C17.serve.no-activity-after-return")
		}
	}
	vpAssert(vpMetric("tacquito_serve_accepted") == a0, "C20.serve_accepted-returns-to-rest")
	vpAssert(vpMetric("tacquito_waitgroup_handle_routines_active") == g0, "C20.waitgroup-gauge-returns-to-rest")
	vpAssert(vpMetric("tacquito_sessions_active") == s0, "C20.sessions_active-returns-to-rest-serve")
	vpReach("C17.serve.end")
}

// with the PROXY protocol prefix enabled the first read of a connection is the prefix line: it
// must be under a deadline as well, and a silent client must be reaped
func vpH_C17_handle_proxy() {
	prefix := []byte("PROXY TCP4 192.0.2.9 192.0.2.1 40000 49\r\n\x00")
	_, pk := vpStream(1)
	in := append(prefix, pk...)
	conn := newVPConn(in)
	conn.cut = vpIntC(0, len(in))
	conn.cutStall = true
	w := newVPWorld(conn)
	w.mode = vpReplyNoRestart
	s := NewServer(&vpLogger{}, nil, SetUseProxy(true))
	s.handle(newVPCtx(), newCrypter([]byte("k"), conn, true), &vpHandler{w: w, id: 0})
	vpAssert(conn.closes == 1, "C17.proxy.closed-on-exit")
	vpAssert(conn.readsUnarmed == 0, "C17.proxy.deadline-armed-before-every-read")
	vpAssert(conn.zeroDeadlines == 0, "C17.proxy.deadline-is-finite")
	vpReach("C17.proxy.end")
}
