//go:build verif

package tacquito

// C03 — body obfuscation is the RFC 8907 4.5 MD5 pad, reversible, honours the clear flag.
// The oracle writes the pad as a chain of one-shot md5.Sum applications over explicitly
// concatenated buffers: pad_1 = MD5(session_id ‖ key ‖ version ‖ seq_no),
// pad_n = MD5(session_id ‖ key ‖ version ‖ seq_no ‖ pad_{n-1}).  In the engine MD5 is an
// uninterpreted function, so equality requires the implementation to hash exactly these
// octets in this order; natively both sides use the real MD5.

import "crypto/md5"

// vpPad returns the n-byte pseudo pad per RFC 8907 4.5.
func vpPad(sid uint32, key []byte, version, seq byte, n int) []byte {
	var pad []byte
	var prev []byte
	for len(pad) < n {
		buf := []byte{byte(sid >> 24), byte(sid >> 16), byte(sid >> 8), byte(sid)}
		buf = append(buf, key...)
		buf = append(buf, version, seq)
		buf = append(buf, prev...)
		d := md5.Sum(buf)
		prev = d[:]
		pad = append(pad, prev...)
	}
	return pad[:n]
}

func vpC03Header(bodyLen int) (*Header, uint8, uint8) {
	minor := vpU8() & 1
	seq := vpU8()
	vpAssume(seq >= 1)
	h := &Header{Version: Version{MajorVersion: 0xc, MinorVersion: minor}, Type: HeaderType(vpInt(1, 3)), SeqNo: SequenceNumber(seq),
		SessionID: SessionID(vpU32()), Flags: HeaderFlag(vpU8()), Length: uint32(bodyLen)}
	return h, minor, seq
}

func vpH_C03_crypt() {
	secret := vpBytesN(vpInt(0, vpBound("secret", 3)))
	n := vpBound("body", 18)
	clear := vpBytesN(vpInt(0, n))
	h, minor, seq := vpC03Header(len(clear))
	body := make([]byte, len(clear))
	copy(body, clear)
	p := &Packet{Header: h, Body: body}
	flags := h.Flags
	err := crypt(secret, p)
	vpAssert(err == nil, "C03.crypt.no-error")
	vpAssert(len(p.Body) == len(clear), "C03.crypt.length-kept")
	vpAssert(int(p.Header.Length) == len(clear), "C03.crypt.header-length-kept")
	vpAssert(p.Header.Flags == flags, "C03.crypt.flags-kept")
	if flags&UnencryptedFlag != 0 {
		vpReach("C03.crypt.clear")
		vpSameStrC(string(p.Body), string(clear), "C03.crypt.verbatim-when-flag-set")
		return
	}
	vpReach("C03.crypt.obfuscated")
	pad := vpPad(uint32(h.SessionID), secret, 0xc0|minor, seq, len(clear))
	for i := 0; i < len(clear) && i < len(p.Body); i++ {
		vpAssert(p.Body[i] == clear[i]^pad[i], "C03.crypt.pad")
	}
	// applying it again recovers the cleartext
	err = crypt(secret, p)
	vpAssert(err == nil, "C03.crypt.no-error-2")
	vpSameStrC(string(p.Body), string(clear), "C03.crypt.involution")
	vpReach("C03.crypt.end")
}

// write: handler-chosen cleartext -> bytes on the connection
func vpH_C03_write() {
	secret := vpBytesN(vpInt(0, vpBound("secret", 3)))
	n := vpBound("wbody", 17)
	clear := vpBytesN(vpInt(0, n))
	h, minor, seq := vpC03Header(0) // the writer must fix the length itself
	h.Length = vpU32()
	vpAssume(h.Length <= 65536)
	body := make([]byte, len(clear))
	copy(body, clear)
	conn := newVPConn(nil)
	c := newCrypter(secret, conn, false)
	flags := h.Flags
	_, err := c.write(&Packet{Header: h, Body: body})
	vpAssert(err == nil, "C03.write.no-error")
	vpAssert(len(conn.out) == 1, "C03.write.one-write")
	if len(conn.out) != 1 {
		return
	}
	w := conn.out[0]
	vpAssert(len(w) == 12+len(clear), "C03.write.len")
	want := vpHeaderBytes(minor, byte(h.Type), seq, byte(flags), uint32(h.SessionID), len(clear))
	vpSameStrC(string(w[:12]), string(want), "C03.write.header-untouched")
	if flags&UnencryptedFlag != 0 {
		vpReach("C03.write.clear")
		vpSameStrC(string(w[12:]), string(clear), "C03.write.verbatim")
		return
	}
	vpReach("C03.write.obfuscated")
	pad := vpPad(uint32(h.SessionID), secret, 0xc0|minor, seq, len(clear))
	for i := 0; i < len(clear) && 12+i < len(w); i++ {
		vpAssert(w[12+i] == clear[i]^pad[i], "C03.write.pad")
	}
	vpReach("C03.write.end")
}

// vpValidBody: a spec-built request body of the given header type (so that the reader's
// key-mismatch detector, C19's subject, stays quiet)
func vpValidBody(typ int) []byte {
	u := vpStrN(vpInt(0, 2))
	vpAssume(vpIsASCII(u))
	switch typ {
	case 1:
		if vpBool() {
			b := []byte{1, vpU8() & 15, byte(vpInt(1, 6)), byte(vpInt(0, 9)), byte(len(u)), 0, 0, 0}
			return append(b, u...)
		}
		b := []byte{0, byte(len(u)), 0, 0, vpU8()}
		return append(b, u...)
	case 2:
		b := []byte{6, vpU8() & 15, byte(vpInt(0, 6)), byte(vpInt(0, 9)), byte(len(u)), 0, 0, 0}
		return append(b, u...)
	}
	b := []byte{2, 6, vpU8() & 15, byte(vpInt(0, 6)), byte(vpInt(0, 9)), byte(len(u)), 0, 0, 0}
	return append(b, u...)
}

// read: bytes laid out per spec on the connection -> cleartext returned
func vpH_C03_read() {
	secret := vpBytesN(vpInt(0, vpBound("secret", 3)))
	typ := vpInt(1, 3)
	clear := vpValidBody(typ)
	minor := vpU8() & 1
	seq := vpU8()
	vpAssume(seq >= 1)
	flags := vpU8()
	sid := vpU32()
	wire := make([]byte, len(clear))
	copy(wire, clear)
	if flags&1 == 0 {
		pad := vpPad(sid, secret, 0xc0|minor, seq, len(clear))
		for i := range wire {
			wire[i] ^= pad[i]
		}
	}
	in := append(vpHeaderBytes(minor, byte(typ), seq, flags, sid, len(clear)), wire...)
	conn := newVPConn(in)
	c := newCrypter(secret, conn, false)
	p, err := c.read()
	vpAssert(err == nil, "C03.read.no-error")
	if err != nil {
		return
	}
	vpReach("C03.read.got-packet")
	vpAssert(len(conn.out) == 0, "C03.read.no-bad-secret-reply")
	vpSameStrC(string(p.Body), string(clear), "C03.read.cleartext")
	vpAssert(int(p.Header.Length) == len(clear), "C03.read.length")
	vpAssert(uint32(p.Header.SessionID) == sid, "C03.read.sid")
	vpAssert(byte(p.Header.SeqNo) == seq, "C03.read.seq")
	vpAssert(byte(p.Header.Type) == byte(typ), "C03.read.type")
	vpReach("C03.read.end")
}

// write on one crypter, read on another with the same secret
func vpH_C03_roundtrip() {
	secret := vpBytesN(vpInt(0, vpBound("secret", 3)))
	typ := vpInt(1, 3)
	clear := vpValidBody(typ)
	minor := vpU8() & 1
	seq := vpU8()
	vpAssume(seq >= 1)
	h := &Header{Version: Version{MajorVersion: 0xc, MinorVersion: minor}, Type: HeaderType(typ), SeqNo: SequenceNumber(seq),
		SessionID: SessionID(vpU32()), Flags: HeaderFlag(vpU8())}
	body := make([]byte, len(clear))
	copy(body, clear)
	a := newVPConn(nil)
	_, err := newCrypter(secret, a, false).write(&Packet{Header: h, Body: body})
	vpAssert(err == nil, "C03.rt.write-ok")
	vpAssert(len(a.out) == 1, "C03.rt.one-write")
	if len(a.out) != 1 {
		return
	}
	b := newVPConn(a.out[0])
	p, err := newCrypter(secret, b, false).read()
	vpAssert(err == nil, "C03.rt.read-ok")
	if err != nil {
		return
	}
	vpSameStrC(string(p.Body), string(clear), "C03.rt.cleartext")
	vpAssert(p.Header.SessionID == h.SessionID, "C03.rt.sid")
	vpReach("C03.rt.end")
}

// long shared secrets (the hash input is longer than one MD5 block)
func vpH_C03_longsecret__4(c int) {
	secret := vpBytesN([]int{58, 59, 64, 100}[c])
	clear := vpBytesN(vpInt(1, 17))
	h, minor, seq := vpC03Header(len(clear))
	h.Flags &^= UnencryptedFlag
	body := make([]byte, len(clear))
	copy(body, clear)
	p := &Packet{Header: h, Body: body}
	err := crypt(secret, p)
	vpAssert(err == nil, "C03.longsecret.no-error")
	pad := vpPad(uint32(h.SessionID), secret, 0xc0|minor, seq, len(clear))
	for i := 0; i < len(clear) && i < len(p.Body); i++ {
		vpAssert(p.Body[i] == clear[i]^pad[i], "C03.longsecret.pad")
	}
	vpReach("C03.longsecret.end")
}
