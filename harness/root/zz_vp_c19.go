//go:build verif

package tacquito

// C19 — key mismatch is signalled and never processed; valid requests are never flagged.
// The cleartext body the server sees after de-obfuscation is free (every result of a wrong key
// is in that space).  Reference rule, written from the RFC layouts: a body "overruns" layout L
// when it is at least L's fixed part long, all of L's length octets are present and the lengths
// they announce add up to more than the bytes that follow.

func vpU16At(b []byte, i int) int { return int(vpAt(b, i))<<8 | int(vpAt(b, i+1)) }

// overrun / exact for layouts without arguments: fixed part `fixed`, announced total `sum`
func vpOverrun(b []byte, min, fixed, sum int) bool {
	return vpAnd(len(b) >= min, vpAnd(len(b) >= fixed, sum > len(b)-fixed))
}

func vpArgLenSum(b []byte, at, cnt int) int {
	s := 0
	for i := 0; i < cnt; i++ {
		s += int(vpAt(b, at+i))
	}
	return s
}

// layouts with arg_cnt at octet cntAt and argument lengths from octet fixed on
func vpOverrunArgs(b []byte, fixed, cntAt, sumFixed int) bool {
	if len(b) < fixed {
		return false
	}
	cnt := int(b[cntAt])
	if len(b) < fixed+cnt {
		return false // length octets missing: the property does not say what this is
	}
	return sumFixed+vpArgLenSum(b, fixed, cnt) > len(b)-fixed-cnt
}

func vpAllLayoutsOverrun(typ int, b []byte) bool {
	switch typ {
	case 1:
		start := vpOverrun(b, 8, 8, int(vpAt(b, 4))+int(vpAt(b, 5))+int(vpAt(b, 6))+int(vpAt(b, 7)))
		cont := vpOverrun(b, 5, 5, vpU16At(b, 0)+vpU16At(b, 2))
		reply := vpOverrun(b, 6, 6, vpU16At(b, 2)+vpU16At(b, 4))
		return vpAnd(start, vpAnd(cont, reply))
	case 2:
		req := vpOverrunArgs(b, 8, 7, int(vpAt(b, 4))+int(vpAt(b, 5))+int(vpAt(b, 6)))
		reply := vpOverrunArgs(b, 6, 1, vpU16At(b, 2)+vpU16At(b, 4))
		return vpAnd(req, reply)
	}
	req := vpOverrunArgs(b, 9, 8, int(vpAt(b, 5))+int(vpAt(b, 6))+int(vpAt(b, 7)))
	reply := vpOverrun(b, 5, 5, vpU16At(b, 0)+vpU16At(b, 2))
	return vpAnd(req, reply)
}

// c = (type - 1) + 3 * length class; class 0: body lengths 0..c19bytes, class k > 0 (authorization
// only): exactly c19bytes + k bytes, room for argument-length octets behind the fixed part
func vpH_C19_detect__9(c int) {
	typ := c%3 + 1
	class := c / 3
	if class > 0 && (typ != 2 || class > vpBound("c19authorextra", 1)) {
		return
	}
	secret := vpBytesN(vpInt(0, vpBound("secret", 2)))
	nmax := vpBound("c19bytes", 8)
	var clear []byte
	if class == 0 {
		clear = vpBytesN(vpInt(0, nmax))
	} else {
		clear = vpBytesN(nmax + class)
	}
	if typ == 2 && len(clear) > 7 {
		vpAssume(clear[7] <= uint8(vpBound("c19args", 2)))
	}
	if typ == 2 && len(clear) > 1 {
		vpAssume(clear[1] <= uint8(vpBound("c19args", 2)))
	}
	if typ == 3 && len(clear) > 8 {
		vpAssume(clear[8] <= uint8(vpBound("c19args", 2)))
	}
	minor := vpU8() & 1
	seq := vpU8() | 1
	flags := vpU8() & 0xfe // obfuscated
	sid := vpU32()
	wire := make([]byte, len(clear))
	copy(wire, clear)
	pad := vpPad(sid, secret, 0xc0|minor, seq, len(clear))
	for i := range wire {
		wire[i] ^= pad[i]
	}
	in := append(vpHeaderBytes(minor, uint8(typ), seq, flags, sid, len(clear)), wire...)
	conn := newVPConn(in)
	invoked := 0
	s := NewServer(&vpLogger{}, nil)
	s.handle(newVPCtx(), newCrypter(secret, conn, false), HandlerFunc(func(resp Response, req Request) {
		invoked++
		resp.Reply(NewAcctReply(SetAcctReplyStatus(AcctReplyStatusSuccess)))
	}))
	vpAssert(conn.closes == 1, "C19.closed")
	if vpAllLayoutsOverrun(typ, clear) {
		vpReach("C19.detect.mismatch")
		vpAssert(invoked == 0, "C19.mismatch-never-reaches-a-handler")
		vpAssert(len(conn.out) == 1, "C19.mismatch-one-error-packet")
		if len(conn.out) != 1 {
			return
		}
		b := conn.out[0]
		vpAssert(len(b) >= 12+5, "C19.error-packet-has-a-body")
		if len(b) < 17 {
			return
		}
		vpAssert(b[1] == uint8(typ), "C19.error-packet-type-matches")
		n := len(b) - 12
		rp := vpPad(sid, secret, b[0], b[2], n)
		body := make([]byte, n)
		for i := range body {
			body[i] = b[12+i] ^ rp[i]
		}
		switch typ {
		case 1:
			vpAssert(body[0] == 7, "C19.authen-status-error")
		case 2:
			vpAssert(body[0] == 0x11, "C19.author-status-error")
		default:
			vpAssert(body[4] == 2, "C19.acct-status-error")
		}
		return
	}
	vpReach("C19.detect.other")
}

// well-formed requests under the right secret, or in the clear under any secret, are dispatched
func vpH_C19_valid__4(c int) {
	secret := vpBytesN(vpInt(0, vpBound("secret", 2)))
	u := vpStrN(vpInt(0, 2))
	vpAssume(vpIsASCII(u))
	var clear []byte
	typ := uint8(1)
	switch c {
	case 0: // authentication START
		clear = append([]byte{1, vpU8() & 15, byte(vpInt(1, 6)), byte(vpInt(0, 9)), byte(len(u)), 0, 0, 0}, u...)
	case 1: // authentication CONTINUE
		clear = append([]byte{0, byte(len(u)), 0, 0, vpU8()}, u...)
	case 2: // authorization REQUEST with one argument
		typ = 2
		arg := vpStrN(vpInt(2, 3))
		vpAssume(vpIsASCII(arg))
		clear = append([]byte{6, vpU8() & 15, byte(vpInt(0, 6)), byte(vpInt(0, 9)), byte(len(u)), 0, 0, 1, byte(len(arg))}, u...)
		clear = append(clear, arg...)
	default: // accounting REQUEST
		typ = 3
		clear = append([]byte{2, 6, vpU8() & 15, byte(vpInt(0, 6)), byte(vpInt(0, 9)), byte(len(u)), 0, 0, 0}, u...)
	}
	minor := vpU8() & 1
	seq := vpU8() | 1
	flags := vpU8()
	sid := vpU32()
	wire := make([]byte, len(clear))
	copy(wire, clear)
	if flags&1 == 0 {
		pad := vpPad(sid, secret, 0xc0|minor, seq, len(clear))
		for i := range wire {
			wire[i] ^= pad[i]
		}
	}
	in := append(vpHeaderBytes(minor, typ, seq, flags, sid, len(clear)), wire...)
	conn := newVPConn(in)
	invoked := 0
	var seen []byte
	s := NewServer(&vpLogger{}, nil)
	s.handle(newVPCtx(), newCrypter(secret, conn, false), HandlerFunc(func(resp Response, req Request) {
		invoked++
		seen = req.Body
	}))
	vpAssert(invoked == 1, "C19.valid-request-is-dispatched")
	vpAssert(len(conn.out) == 0, "C19.valid-request-gets-no-error-packet")
	if invoked == 1 {
		vpSameStrC(string(seen), string(clear), "C19.handler-sees-the-cleartext")
	}
	vpReach("C19.valid.end")
}
