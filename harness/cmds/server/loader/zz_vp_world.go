//go:build verif

package loader

// Reference-server harness world: a real Loader (built directly, without its goroutine), real
// factories (handlers.Start, bcrypt, stringy, local accounter, prefix provider), mocks for the
// logger, the accounting sink and the key chain; requests go through the real connection loop
// (tq.VPHandle) as raw bytes with the unencrypted flag set.

import (
	"context"
	"fmt"

	tq "github.com/facebookincubator/tacquito"
	"github.com/facebookincubator/tacquito/cmds/server/config"
	"github.com/facebookincubator/tacquito/cmds/server/config/accounters/local"
	"github.com/facebookincubator/tacquito/cmds/server/config/authenticators/bcrypt"
	"github.com/facebookincubator/tacquito/cmds/server/config/authorizers/stringy"
	"github.com/facebookincubator/tacquito/cmds/server/config/secret"
	"github.com/facebookincubator/tacquito/cmds/server/config/secret/prefix"
	"github.com/facebookincubator/tacquito/cmds/server/handlers"
)

// real bcrypt hashes (cost 4), hex encoded as the configuration expects them
const (
	vpHashPW  = "24326124303424337242746261785276576f796b6736416b3635744b2e31782f4b37356256776d6b6470756e687a564b33336b2e514d414d3773776d" // "pw"
	vpHashQX  = "243261243034244a4474676f625a6f414a6e75414b374d664f337841756b49454d51763256586b6142642f49395a766967673332586f55765749374f" // "qx"
	vpHashTok = "24326124303424645639554979646d3433704969476b55434c6d4d557569784569536d593433656642417a517576386f46386c52746b386367745836" // "Tok9zQ"
)

type vpLogCall struct {
	level string
	text  string
}

// vpLog implements every logger interface of the reference server.
type vpLog struct {
	calls   int
	secrets []string // values that must never be emitted (C18)
	leaks   int
	check   bool
}

func (l *vpLog) scan(what string, v interface{}) {
	if !l.check {
		return
	}
	for _, s := range l.secrets {
		if vpLeaks(v, s) {
			l.leaks++
			vpAssert(false, "C18.leak."+what)
		}
	}
}

func (l *vpLog) emit(level string, format string, args []interface{}) {
	l.calls++
	l.scan(level+".format", format)
	for _, a := range args {
		l.scan(level+".arg", a)
	}
}

func (l *vpLog) Infof(ctx context.Context, format string, args ...interface{}) {
	l.emit("info", format, args)
}
func (l *vpLog) Errorf(ctx context.Context, format string, args ...interface{}) {
	l.emit("error", format, args)
}
func (l *vpLog) Debugf(ctx context.Context, format string, args ...interface{}) {
	l.emit("debug", format, args)
}
func (l *vpLog) Record(ctx context.Context, r map[string]string, obscure ...string) {
	l.calls++
	for k, v := range r {
		hidden := false
		for _, o := range obscure {
			if o == k {
				hidden = true
			}
		}
		if !hidden {
			l.scan("record."+k, v)
		}
	}
}
func (l *vpLog) Set(ctx context.Context, fields map[string]string, keys ...tq.ContextKey) context.Context {
	l.calls++
	for _, k := range keys {
		if v, ok := fields[string(k)]; ok {
			l.scan("set."+string(k), v)
		}
	}
	return ctx
}

// vpSink is the accounting sink: it renders like log.Logger.Printf and remembers the order of
// sink writes relative to replies.
type vpSink struct {
	lines []string
	conn  *tq.VPConn
	after []int // number of packets already written when each line arrived
}

func (s *vpSink) Printf(format string, args ...interface{}) {
	s.lines = append(s.lines, fmt.Sprintf(format, args...))
	if s.conn != nil {
		s.after = append(s.after, len(s.conn.Out()))
	}
}

type vpKeychain struct {
	fail bool
	hash []byte
}

func (k *vpKeychain) GetSecret(ctx context.Context, name, group string) ([]byte, error) {
	if k.fail {
		return nil, fmt.Errorf("keychain unavailable")
	}
	return k.hash, nil
}

type vpWorld struct {
	log  *vpLog
	sink *vpSink
	kc   *vpKeychain
	ld   *Loader
}

func vpNewWorld() *vpWorld {
	w := &vpWorld{log: &vpLog{}, sink: &vpSink{}, kc: &vpKeychain{}}
	acct, _ := local.New(w.log, local.SetLogSink(w.sink))
	w.ld = &Loader{
		loggerProvider:     w.log,
		ctx:                context.Background(),
		keychainProvider:   secret.New(),
		configProvider:     config.New(),
		authorizerProvider: stringy.New(w.log),
		providerTypes:      map[config.ProviderType]secretProviderFactory{config.PREFIX: prefix.New(w.log)},
		authenticatorTypes: map[config.AuthenticatorType]authenticatorFactory{config.BCRYPT: bcrypt.New(w.log, w.kc)},
		accounterTypes:     map[config.AccounterType]accounterFactory{config.FILE: acct},
		handlerTypes:       map[config.HandlerType]handlerFactory{config.START: handlers.NewStart(w.log)},
	}
	return w
}

func vpBcrypt(hash string) *config.Authenticator {
	return &config.Authenticator{Type: config.BCRYPT, Options: map[string]string{"hash": hash}}
}

func vpScope(name, key string, prefixes string) config.SecretConfig {
	return config.SecretConfig{Name: name, Secret: config.Keychain{Key: key}, Handler: config.Handler{Type: config.START},
		Type: config.PREFIX, Options: map[string]string{"prefixes": prefixes}}
}

// handlerFor builds the providers and returns the entry handler of the first one that serves
// 10.0.0.1 (nil when the lookup refuses).
func (w *vpWorld) handlerFor(c config.ServerConfig) ([]byte, tq.Handler) {
	providers := w.ld.build(c)
	sec, h, err := w.ld.get(context.Background(), providers, vpTCP4(10, 0, 0, 1))
	if err != nil {
		return nil, nil
	}
	return sec, h
}

// ---- request builders (RFC 8907 layouts, written out here)

func vpAuthenStartBody(action, priv, typ, svc uint8, user, port, rem, data string) []byte {
	b := []byte{action, priv, typ, svc, byte(len(user)), byte(len(port)), byte(len(rem)), byte(len(data))}
	b = append(b, user...)
	b = append(b, port...)
	b = append(b, rem...)
	return append(b, data...)
}

func vpAuthenContinueBody(flags uint8, msg, data string) []byte {
	b := []byte{byte(len(msg) >> 8), byte(len(msg)), byte(len(data) >> 8), byte(len(data)), flags}
	b = append(b, msg...)
	return append(b, data...)
}

func vpAuthorRequestBody(method, priv, typ, svc uint8, user string, args []string) []byte {
	b := []byte{method, priv, typ, svc, byte(len(user)), 0, 0, byte(len(args))}
	for _, a := range args {
		b = append(b, byte(len(a)))
	}
	b = append(b, user...)
	for _, a := range args {
		b = append(b, a...)
	}
	return b
}

func vpAcctRequestBody(flags, method, priv, typ, svc uint8, user, port, rem string, args []string) []byte {
	b := []byte{flags, method, priv, typ, svc, byte(len(user)), byte(len(port)), byte(len(rem)), byte(len(args))}
	for _, a := range args {
		b = append(b, byte(len(a)))
	}
	b = append(b, user...)
	b = append(b, port...)
	b = append(b, rem...)
	for _, a := range args {
		b = append(b, a...)
	}
	return b
}

// vpPacket frames a body (unencrypted flag set)
func vpPacket(minor, typ, seq uint8, sid uint32, body []byte) []byte {
	return append(tq.VPHeaderBytes(minor, typ, seq, 1, sid, len(body)), body...)
}

// run feeds the stream to the real loop and returns the connection
func (w *vpWorld) run(h tq.Handler, stream []byte) *tq.VPConn {
	conn := tq.VPNewConn(stream)
	w.sink.conn = conn
	tq.VPHandle(tq.VPNewCtx(), conn, []byte("k"), w.log, h)
	return conn
}
