//go:build verif

package loader

// C09 — multiplexed sessions never influence one another (single connection formulation).
// 2-safety by self-composition: the real server logic runs three times on the same symbolic
// material - once on the interleaving, once per session alone - and the reply transcripts of each
// session must be byte-identical.

import (
	"github.com/facebookincubator/tacquito/cmds/server/config"
)

func vpMuxConfig() config.ServerConfig {
	acct := &config.Accounter{Name: "file", Type: config.FILE}
	a := config.User{Name: "a", Scopes: []string{"s1"}, Authenticator: vpBcrypt(vpHashPW), Accounter: acct,
		Commands: []config.Command{{Name: "show", Action: config.PERMIT}}}
	b := config.User{Name: "b", Scopes: []string{"s1"}, Authenticator: vpBcrypt(vpHashQX),
		Commands: []config.Command{{Name: "*", Action: config.DENY}}}
	return config.ServerConfig{Secrets: []config.SecretConfig{vpScope("s1", "k", `["10.0.0.0/8"]`)}, Users: []config.User{a, b}}
}

// vpScript: the packets of one session (consecutive odd sequence numbers)
func vpScript(kind int, sid uint32, u, pw string) [][]byte {
	switch kind {
	case 0: // ASCII login, user name in START, then the password
		return [][]byte{
			vpPacket(0, 1, 1, sid, vpAuthenStartBody(1, 1, 1, 1, u, "", "", "")),
			vpPacket(0, 1, 3, sid, vpAuthenContinueBody(0, pw, "")),
		}
	case 1: // ASCII login, user name at the prompt (left waiting for the password)
		return [][]byte{
			vpPacket(0, 1, 1, sid, vpAuthenStartBody(1, 1, 1, 1, "", "", "", "")),
			vpPacket(0, 1, 3, sid, vpAuthenContinueBody(0, u, "")),
		}
	case 2: // PAP login
		return [][]byte{vpPacket(1, 1, 1, sid, vpAuthenStartBody(1, 1, 2, 1, u, "", "", pw))}
	case 3: // command authorization
		return [][]byte{vpPacket(0, 2, 1, sid, vpCommandRequest(u, "show", nil, false))}
	default: // accounting start
		return [][]byte{vpPacket(0, 3, 1, sid, vpAcctRequestBody(2, 6, 1, 1, 1, u, "", "", nil))}
	}
}

// replies of one session, in order, out of everything written on the connection
func vpRepliesOf(out [][]byte, sid uint32) [][]byte {
	var r [][]byte
	for _, p := range out {
		if len(p) >= 12 && p[4] == byte(sid>>24) && p[5] == byte(sid>>16) && p[6] == byte(sid>>8) && p[7] == byte(sid) {
			r = append(r, p)
		}
	}
	return r
}

func vpSameTranscript(x, y [][]byte, id string) {
	vpAssert(len(x) == len(y), id+".count")
	for i := 0; i < len(x) && i < len(y); i++ {
		vpSameStrC(string(x[i]), string(y[i]), id)
	}
}

func vpServeStream(stream []byte) [][]byte {
	vpRegisterHashes()
	w := vpNewWorld()
	_, h := w.handlerFor(vpMuxConfig())
	if h == nil {
		return nil
	}
	return w.run(h, stream).Out()
}

// c = kind of session A * 5 + kind of session B
func vpH_C09_mux__25(c int) {
	if c >= vpBound("c09pairs", 25) {
		return
	}
	ka, kb := c/5, c%5
	sidA, sidB := vpU32(), vpU32()
	vpAssume(sidA != sidB)
	ua, ub := vpStrN(1), vpStrN(1)
	pa, pb := vpStrN(2), vpStrN(2)
	vpAssume(vpIsASCII(ua) && vpIsASCII(ub) && vpIsASCII(pa) && vpIsASCII(pb))
	A := vpScript(ka, sidA, ua, pa)
	B := vpScript(kb, sidB, ub, pb)
	// a symbolic merge order of the two scripts
	var mixed, aloneA, aloneB []byte
	i, j := 0, 0
	for i < len(A) || j < len(B) {
		takeA := j >= len(B) || (i < len(A) && vpBool())
		if takeA {
			mixed = append(mixed, A[i]...)
			i++
		} else {
			mixed = append(mixed, B[j]...)
			j++
		}
	}
	for _, p := range A {
		aloneA = append(aloneA, p...)
	}
	for _, p := range B {
		aloneB = append(aloneB, p...)
	}
	outMixed := vpServeStream(mixed)
	outA := vpServeStream(aloneA)
	outB := vpServeStream(aloneB)
	vpSameTranscript(vpRepliesOf(outMixed, sidA), vpRepliesOf(outA, sidA), "C09.session-A-unaffected")
	vpSameTranscript(vpRepliesOf(outMixed, sidB), vpRepliesOf(outB, sidB), "C09.session-B-unaffected")
	vpAssert(len(outMixed) == len(A)+len(B), "C09.every-request-answered")
	vpReach("C09.mux.end")
}
