//go:build verif

package loader

// C18 — passwords never reach the logs.  The password bytes carry a label; every call on the
// injected logger (all levels, structured records minus the keys the call lists as obscured,
// context fields selected for retention) is inspected.  Engine: does the emitted value depend on
// the labelled bytes; native replay: substring search for the password.
// Labelled: the data field of a START with action LOGIN and type PAP (whatever minor version or
// service), and the user_msg of the CONTINUE that answers GETPASS.  Not labelled: user names.

import (
	"github.com/facebookincubator/tacquito/cmds/server/config"
)

func vpH_C18_password__3(c int) {
	vpRegisterHashes()
	w := vpNewWorld()
	a := config.User{Name: "a", Scopes: []string{"s1"}, Authenticator: vpBcrypt(vpHashTok)}
	cfg := config.ServerConfig{Secrets: []config.SecretConfig{vpScope("s1", "k", `["10.0.0.0/8"]`)}, Users: []config.User{a}}
	_, h := w.handlerFor(cfg)
	if h == nil {
		return
	}
	pw := vpStrN(6) // any bytes: a non-ASCII password makes the CONTINUE undecodable (error paths)
	w.log.secrets = []string{pw}
	w.log.check = true
	sid := vpU32()
	u := vpStrN(vpInt(0, 1))
	vpAssume(vpIsASCII(u))
	var stream []byte
	switch c {
	case 0:
		// PAP login, any minor version and service (minor 0 is the unrecognised-START path)
		minor := vpU8() & 1
		stream = vpPacket(minor, 1, 1, sid, vpAuthenStartBody(1, vpU8()&15, 2, uint8(vpInt(0, 9)), u, "", "", pw))
	case 1:
		// ASCII login, user name in START, password in the CONTINUE that answers GETPASS
		vpAssume(len(u) > 0)
		stream = vpPacket(0, 1, 1, sid, vpAuthenStartBody(1, vpU8()&15, 1, uint8(vpInt(0, 9)), u, "", "", ""))
		stream = append(stream, vpPacket(0, 1, 3, sid, vpAuthenContinueBody(vpU8(), pw, ""))...)
	default:
		// ASCII login, user name at the prompt
		stream = vpPacket(0, 1, 1, sid, vpAuthenStartBody(1, vpU8()&15, 1, uint8(vpInt(0, 9)), "", "", "", ""))
		stream = append(stream, vpPacket(0, 1, 3, sid, vpAuthenContinueBody(vpU8()&0xfe, u, ""))...)
		vpAssume(len(u) > 0)
		stream = append(stream, vpPacket(0, 1, 5, sid, vpAuthenContinueBody(vpU8(), pw, ""))...)
	}
	w.run(h, stream)
	vpAssert(w.log.leaks == 0, "C18.password-never-logged")
	vpAssert(w.log.calls > 0, "C18.logger-was-exercised")
	vpReach("C18.password.end")
}
