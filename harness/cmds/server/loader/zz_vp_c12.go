//go:build verif

package loader

// C12 — acknowledged accounting records are written once and say what the client sent.

import (
	"encoding/json"

	tq "github.com/facebookincubator/tacquito"
	"github.com/facebookincubator/tacquito/cmds/server/config"
)

func vpAcctConfig(c int) config.ServerConfig {
	scope := vpScope("s1", "k", `["10.0.0.0/8"]`)
	a := config.User{Name: "a", Scopes: []string{"s1"}, Accounter: &config.Accounter{Name: "file", Type: config.FILE}}
	b := config.User{Name: "b", Scopes: []string{"s1"}} // no accounter: default ERROR
	if c == 1 {
		// accounter inherited from the first group that has one
		a.Accounter = nil
		a.Groups = []config.Group{{Name: "g0"}, {Name: "g1", Accounter: &config.Accounter{Name: "file", Type: config.FILE}}}
	}
	return config.ServerConfig{Secrets: []config.SecretConfig{scope}, Users: []config.User{a, b}}
}

func vpH_C12_acct__3(c int) {
	w := vpNewWorld()
	_, h := w.handlerFor(vpAcctConfig(c))
	vpAssert(h != nil, "C12.scope-is-served")
	if h == nil {
		return
	}
	n := vpBound("c12text", 2)
	flags := vpU8()
	method := []uint8{0, 1, 2, 3, 4, 5, 6, 8, 16}[vpInt(0, 8)]
	priv := vpU8() & 15
	atype := uint8(vpInt(0, 6))
	svc := uint8(vpInt(0, 9))
	user := vpStrN(vpInt(0, 1))
	port := vpStrN(vpInt(0, n))
	rem := vpStrN(vpInt(0, n))
	if c == 2 {
		// a request whose text contains printf verbs
		port, rem = "%d", "100%s"
	}
	nargs := vpInt(0, vpBound("c12args", 1))
	var args []string
	for i := 0; i < nargs; i++ {
		a := vpStrN(vpInt(0, 3))
		vpAssume(vpIsASCII(a))
		args = append(args, a)
	}
	vpAssume(vpIsASCII(user))
	vpAssume(vpIsASCII(port))
	vpAssume(vpIsASCII(rem))
	// witness shaping: a record with a '%' in it shows format-string mangling natively
	if len(port) > 0 {
		vpPrefer(port[0] == '%')
	}
	if len(port) > 1 {
		vpPrefer(port[1] == 'd')
	}
	seq := vpU8() | 1
	body := vpAcctRequestBody(flags, method, priv, atype, svc, user, port, rem, args)
	conn := w.run(h, vpPacket(0, 3, seq, vpU32(), body))
	out := conn.Out()
	if seq == 255 {
		vpAssert(len(out) == 0, "C12.no-reply-to-255")
		return
	}
	vpAssert(len(out) == 1, "C07.handlers.one-reply-per-accounting-request")
	if len(out) != 1 || len(out[0]) < 17 {
		return
	}
	status := out[0][16] // accounting REPLY: server_msg_len(2) data_len(2) status
	vpAssert(status == 1 || status == 2, "C12.status-defined")
	contradictory := flags&0x0c == 0x0c
	if user != "a" || contradictory {
		vpReach("C12.must-be-error")
		vpAssert(status == 2, "C12.unknown-user-no-accounter-or-bad-flags-is-ERROR")
	}
	if status == 1 {
		vpReach("C12.success")
		vpAssert(len(w.sink.lines) == 1, "C12.exactly-one-record-per-acknowledged-request")
		if len(w.sink.lines) != 1 {
			return
		}
		vpAssert(w.sink.after[0] == 0, "C12.record-written-before-the-reply")
		// the record must be the JSON of the request as the client sent it (independent value)
		want := tq.AcctRequest{Flags: tq.AcctRequestFlag(flags), Method: tq.AuthenMethod(method), PrivLvl: tq.PrivLvl(priv),
			Type: tq.AuthenType(atype), Service: tq.AuthenService(svc), User: tq.AuthenUser(user), Port: tq.AuthenPort(port),
			RemAddr: tq.AuthenRemAddr(rem), Args: make(tq.Args, 0, len(args))}
		for _, a := range args {
			want.Args = append(want.Args, tq.Arg(a))
		}
		j, err := json.Marshal(want)
		vpAssert(err == nil, "C12.oracle-json")
		vpAssert(w.sink.lines[0] == string(j), "C12.record-says-what-the-client-sent")
	} else {
		vpReach("C12.error")
	}
	vpReach("C12.end")
}
