//go:build verif

package loader

// C10 — authentication passes only for a known user presenting that user's password.
// Also carries: C07 L2 (one reply per request through the reference handlers), C14 (no panic on
// these histories), C18 (the password never reaches the logger).

import (
	"encoding/hex"
	"net"

	"github.com/facebookincubator/tacquito/cmds/server/config"
)

func vpTCP4(a, b, c, d byte) *net.TCPAddr { return &net.TCPAddr{IP: net.IP{a, b, c, d}, Port: 40000} }

func vpRegisterHashes() {
	for _, p := range [][2]string{{vpHashPW, "pw"}, {vpHashQX, "qx"}, {vpHashTok, "Tok9zQ"}} {
		raw, _ := hex.DecodeString(p[0])
		vpBcryptPair(string(raw), p[1])
	}
}

// vpAuthnConfig returns the configuration of case c and, for the two configured names, the
// plaintext that must be accepted ("" = no password is ever accepted).
func vpAuthnConfig(c int, w *vpWorld) (config.ServerConfig, string, string) {
	scope := vpScope("s1", "k", `["10.0.0.0/8"]`)
	a := config.User{Name: "a", Scopes: []string{"s1"}}
	b := config.User{Name: "b", Scopes: []string{"s1"}}
	passA, passB := "", ""
	switch c {
	case 0:
		a.Authenticator = vpBcrypt(vpHashPW)
		b.Groups = []config.Group{{Name: "g1"}, {Name: "g2", Authenticator: vpBcrypt(vpHashQX)}}
		passA, passB = "pw", "qx"
	case 1:
		a.Authenticator = vpBcrypt(vpHashPW)
		a.Groups = []config.Group{{Name: "g", Authenticator: vpBcrypt(vpHashQX)}}
		b.Groups = []config.Group{{Name: "g1", Authenticator: vpBcrypt(vpHashQX)}, {Name: "g2", Authenticator: vpBcrypt(vpHashPW)}}
		passA, passB = "pw", "qx"
	case 2:
		a.Authenticator = vpBcrypt(vpHashPW)
		b.Groups = []config.Group{{Name: "g1"}}
		passA = "pw"
	case 3:
		// credential kept in the key chain instead of the configuration
		a.Authenticator = &config.Authenticator{Type: config.BCRYPT, Options: map[string]string{"group": "g"}}
		raw, _ := hex.DecodeString(vpHashPW)
		w.kc.hash = raw
		w.kc.fail = vpBool()
		if !w.kc.fail {
			passA = "pw"
		}
		b.Authenticator = vpBcrypt(vpHashQX)
		passB = "qx"
	case 4:
		a.Authenticator = &config.Authenticator{Type: config.AuthenticatorType(99)}
		b.Authenticator = vpBcrypt(vpHashQX)
		passB = "qx"
	default:
		a.Authenticator = vpBcrypt("zz")
		b.Authenticator = vpBcrypt(vpHashQX)
		passB = "qx"
	}
	return config.ServerConfig{Secrets: []config.SecretConfig{scope}, Users: []config.User{a, b}}, passA, passB
}

func vpPassFor(user, passA, passB string) string {
	if user == "a" {
		return passA
	}
	if user == "b" {
		return passB
	}
	return ""
}

// c = configuration case (0..5) * 3 + flow (0 = ASCII login, 1 = PAP login, 2 = anything else)
func vpH_C10_authn__18(c int) {
	// byte windows of different size may become symbolic when call outcomes are merged: for this
	// harness the paths saved outweigh the harder queries by a factor of four
	vpEngineOption("merge_lossy", 1)
	flow := c % 3
	if flow == 2 && c/3 >= vpBound("c10other", 1) {
		return // the "anything else" flow is configuration independent: run it for the first cases only
	}
	vpRegisterHashes()
	w := vpNewWorld()
	cfg, passA, passB := vpAuthnConfig(c/3, w)
	_, h := w.handlerFor(cfg)
	vpAssert(h != nil, "C10.scope-is-served")
	if h == nil {
		return
	}
	// ---- the client's script: START, CONTINUE, CONTINUE on one session
	action := []uint8{1, 2, 4}[vpInt(0, 2)]
	atype := uint8(vpInt(1, 6))
	svc := uint8(vpInt(0, 9))
	minor := vpU8() & 1
	switch flow {
	case 0:
		action, atype, minor = 1, 1, 0
	case 1:
		action, atype, minor = 1, 2, 1
	default:
		// every other combination, concretised (one path each)
		action = []uint8{1, 2, 4}[vpIntC(0, 2)]
		atype = uint8(vpIntC(1, 6))
		minor = uint8(vpIntC(0, 1))
		vpAssume(!(action == 1 && atype == 1 && minor == 0))
		vpAssume(!(action == 1 && atype == 2 && minor == 1))
	}
	var u0, d0, m1, m2 string
	if flow == 2 {
		// fixed lengths: the point of this flow is the router, not the field sizes
		u0, d0, m1, m2 = vpStrN(1), vpStrN(2), vpStrN(2), ""
	} else {
		u0 = vpStrN(vpInt(0, 1))
		d0 = vpStrN(vpInt(0, 2))
		m1 = vpStrN(vpInt(0, 2))
		m2 = vpStrN(vpInt(0, 2))
	}
	f1, f2 := vpU8(), vpU8()
	vpAssume(vpIsASCII(u0))
	vpAssume(vpIsASCII(m1))
	vpAssume(vpIsASCII(m2))
	if atype == 1 {
		vpAssume(vpIsASCII(d0))
	}
	w.log.secrets = []string{d0, m1, m2}
	sid := vpU32()
	stream := vpPacket(minor, 1, 1, sid, vpAuthenStartBody(action, vpU8()&15, atype, svc, u0, "", "", d0))
	stream = append(stream, vpPacket(minor, 1, 3, sid, vpAuthenContinueBody(f1, m1, ""))...)
	stream = append(stream, vpPacket(minor, 1, 5, sid, vpAuthenContinueBody(f2, m2, ""))...)
	conn := w.run(h, stream)
	out := conn.Out()
	// ---- C07 L2: every accepted request got exactly one reply
	vpAssert(len(out) == 3, "C07.handlers.one-reply-per-request")
	if len(out) != 3 {
		return
	}
	// ---- independent evaluation of (configuration, transcript)
	const (
		fresh = iota
		wantUser
		wantPass
	)
	state, user := fresh, ""
	expect := [3]bool{}
	// request 1: START
	if action == 1 && atype == 1 && minor == 0 {
		if u0 == "" {
			state = wantUser
		} else {
			state, user = wantPass, u0
		}
	} else if action == 1 && atype == 2 && minor == 1 {
		p := vpPassFor(u0, passA, passB)
		expect[0] = u0 != "" && d0 != "" && p != "" && d0 == p
	}
	// requests 2 and 3: CONTINUE
	flags := [2]uint8{f1, f2}
	msgs := [2]string{m1, m2}
	for i := 0; i < 2; i++ {
		abort := flags[i]&1 != 0
		switch state {
		case wantUser:
			state = fresh
			if !abort && msgs[i] != "" {
				state, user = wantPass, msgs[i]
			}
		case wantPass:
			state = fresh
			p := vpPassFor(user, passA, passB)
			expect[i+1] = !abort && msgs[i] != "" && p != "" && msgs[i] == p
		}
	}
	for i := 0; i < 3; i++ {
		vpAssert(len(out[i]) >= 13, "C10.reply-has-a-status")
		if len(out[i]) < 13 {
			return
		}
		st := out[i][12]
		vpAssert(out[i][1] == 1, "C10.reply-is-authentication")
		if expect[i] {
			vpReach("C10.pass-expected")
			vpAssert(st == 1, "C10.complete.valid-login-passes")
		} else {
			vpAssert(st != 1, "C10.sound.no-pass-without-valid-credentials")
		}
		vpAssert(st >= 1 && st <= 7, "C10.status-is-defined")
	}
	vpAssert(conn.Closes() == 1, "C10.closed-at-eof")
	vpReach("C10.end")
}
