//go:build verif

package json

import (
	stdjson "encoding/json"

	"github.com/facebookincubator/tacquito/cmds/server/config"
)

// C16 — reloading a configuration file is equivalent to starting with it.
// A document is described by a vpDoc value: which top-level keys are present, the list lengths
// and the (free) contents.  Natively the description is rendered as real JSON text and goes
// through the real decoder; in the engine the text is opaque and the decoder is a model of the
// library's documented merge behaviour (keys absent from the document leave the target
// untouched; JSON arrays are decoded element by element into the existing backing array, object keys absent from an element keep the old field), so what the solver decides is whether the loader hands the decoder a fresh
// target, publishes only after the content check, and never touches a published value again.

// vpDoc: field order is part of the contract with the engine's decoder model.
type vpDoc struct {
	Invalid    bool // the text does not parse: the decoder fails before writing anything
	HasSecrets bool
	Secrets    []config.SecretConfig
	HasUsers   bool
	Users      []config.User
	HasDeny    bool
	Deny       []string
	HasAllow   bool
	Allow      []string
	// per user: is the "scopes" key present in that user's mapping
	UserHasScopes []bool
}

func vpName() string {
	return []string{"a", "b", "c"}[vpInt(0, 2)]
}

// vpShape: document shapes (which keys are present, list lengths); names are free
func vpShape(k int) *vpDoc {
	user := func(scoped bool) (config.User, bool) {
		u := config.User{Name: vpName()}
		if scoped {
			u.Scopes = []string{vpName()}
		}
		return u, scoped
	}
	secret := func() config.SecretConfig { return config.SecretConfig{Name: vpName(), Type: config.PREFIX} }
	d := &vpDoc{}
	addUser := func(scoped bool) {
		u, hs := user(scoped)
		d.Users = append(d.Users, u)
		d.UserHasScopes = append(d.UserHasScopes, hs)
	}
	switch k {
	case 0: // everything present
		d.HasSecrets, d.HasUsers, d.HasDeny, d.HasAllow = true, true, true, true
		d.Secrets = []config.SecretConfig{secret()}
		addUser(true)
		d.Deny = []string{"10.0.0.0/8"}
		d.Allow = []string{"192.168.0.0/16"}
	case 1: // the optional top-level keys dropped
		d.HasSecrets, d.HasUsers = true, true
		d.Secrets = []config.SecretConfig{secret()}
		addUser(true)
	case 2: // two users, the second without scopes
		d.HasSecrets, d.HasUsers = true, true
		d.Secrets = []config.SecretConfig{secret()}
		addUser(true)
		addUser(false)
	case 3: // no secrets key at all
		d.HasUsers = true
		addUser(true)
	case 4: // does not parse
		d.Invalid = true
	case 5: // two secrets, one user without scopes
		d.HasSecrets, d.HasUsers = true, true
		d.Secrets = []config.SecretConfig{secret(), secret()}
		addUser(false)
	case 6: // an empty user list
		d.HasSecrets, d.HasUsers = true, true
		d.Secrets = []config.SecretConfig{secret()}
	default: // deny list present but empty
		d.HasSecrets, d.HasUsers, d.HasDeny = true, true, true
		d.Secrets = []config.SecretConfig{secret()}
		addUser(false)
	}
	return d
}

func vpSameStrings(a, b []string, id string) {
	vpAssert(len(a) == len(b), id+".len")
	for i := 0; i < len(a) && i < len(b); i++ {
		vpAssert(a[i] == b[i], id)
	}
}

func vpSameConfig(a, b config.ServerConfig, id string) {
	vpAssert(len(a.Secrets) == len(b.Secrets), id+".secrets.len")
	for i := 0; i < len(a.Secrets) && i < len(b.Secrets); i++ {
		vpAssert(a.Secrets[i].Name == b.Secrets[i].Name, id+".secrets.name")
	}
	vpAssert(len(a.Users) == len(b.Users), id+".users.len")
	for i := 0; i < len(a.Users) && i < len(b.Users); i++ {
		vpAssert(a.Users[i].Name == b.Users[i].Name, id+".users.name")
		vpSameStrings(a.Users[i].Scopes, b.Users[i].Scopes, id+".users.scopes")
	}
	vpSameStrings(a.PrefixDeny, b.PrefixDeny, id+".prefix_deny")
	vpSameStrings(a.PrefixAllow, b.PrefixAllow, id+".prefix_allow")
}

// vpSnapshot: a deep copy of the parts of a configuration the oracle looks at
func vpSnapshot(c config.ServerConfig) config.ServerConfig {
	var s config.ServerConfig
	for _, x := range c.Secrets {
		s.Secrets = append(s.Secrets, config.SecretConfig{Name: x.Name})
	}
	for _, u := range c.Users {
		s.Users = append(s.Users, config.User{Name: u.Name, Scopes: append([]string(nil), u.Scopes...)})
	}
	s.PrefixDeny = append([]string(nil), c.PrefixDeny...)
	s.PrefixAllow = append([]string(nil), c.PrefixAllow...)
	return s
}

type vpLoaderUnderTest interface {
	Unmarshal(b []byte) error
	Config() chan config.ServerConfig
}

// take returns the configuration published by a successful load (nil channel read otherwise)
func vpTake(l vpLoaderUnderTest) (config.ServerConfig, bool) {
	select {
	case c := <-l.Config():
		return c, true
	default:
		return config.ServerConfig{}, false
	}
}

func vpC16(c int, mk func() vpLoaderUnderTest, render func(*vpDoc) []byte) {
	l := mk()
	d1, d2 := vpShape(c/8), vpShape(c%8)
	err1 := l.Unmarshal(render(d1))
	c1, got1 := vpTake(l)
	vpAssert(got1 == (err1 == nil), "C16.publishes-iff-load-succeeds.first")
	var snap1 config.ServerConfig
	if got1 {
		snap1 = vpSnapshot(c1)
	}
	err2 := l.Unmarshal(render(d2))
	c2, got2 := vpTake(l)
	vpAssert(got2 == (err2 == nil), "C16.publishes-iff-load-succeeds.second")
	// the same document on a freshly constructed loader
	f := mk()
	errF := f.Unmarshal(render(d2))
	cf, gotF := vpTake(f)
	vpAssert((err2 == nil) == (errF == nil), "C16.reload-succeeds-iff-fresh-load-does")
	if got2 && gotF {
		vpReach("C16.both-published")
		vpSameConfig(c2, cf, "C16.reload-equals-fresh")
	}
	if got1 {
		vpSameConfig(c1, snap1, "C16.published-value-not-modified-by-later-load")
	}
	vpReach("C16.end")
}

// vpDocBytes renders the description as JSON text (the engine intercepts this function).
func vpDocBytes(d *vpDoc) []byte {
	if d.Invalid {
		return []byte(`{"secrets": [`)
	}
	m := map[string]interface{}{}
	if d.HasSecrets {
		l := []interface{}{}
		for _, s := range d.Secrets {
			l = append(l, map[string]interface{}{"name": s.Name, "type": int(s.Type)})
		}
		m["secrets"] = l
	}
	if d.HasUsers {
		l := []interface{}{}
		for i, u := range d.Users {
			um := map[string]interface{}{"name": u.Name}
			if d.UserHasScopes[i] {
				um["scopes"] = u.Scopes
			}
			l = append(l, um)
		}
		m["users"] = l
	}
	if d.HasDeny {
		m["prefix_deny"] = append([]string{}, d.Deny...)
	}
	if d.HasAllow {
		m["prefix_allow"] = append([]string{}, d.Allow...)
	}
	b, _ := stdjson.Marshal(m)
	return b
}

// c = shape of the first document * 8 + shape of the second
func vpH_C16_json__64(c int) {
	vpC16(c, func() vpLoaderUnderTest { return New() }, vpDocBytes)
}
