//go:build verif

package loader

// C14 — no client input can crash the server.  Free bytes into every handler state of the
// reference server, under configurations that include the odd ones.  Every index, slice, nil
// dereference, type assertion and map write below the connection loop is a solver obligation.

import (
	"github.com/facebookincubator/tacquito/cmds/server/config"
)

func vpOddConfig(c int, w *vpWorld) config.ServerConfig {
	a := config.User{Name: "a", Scopes: []string{"s1"}}
	switch c {
	case 0:
		a.Authenticator = vpBcrypt(vpHashPW)
		a.Accounter = &config.Accounter{Name: "file", Type: config.FILE}
		a.Commands = []config.Command{{Name: "show", Action: config.PERMIT, Match: []string{"a|b", "("}}}
		a.Services = []config.Service{{Name: "shell", SetValues: []config.Value{{Name: "priv-lvl", Values: []string{"15"}}}}}
	case 1:
		// authenticator without options, accounter of unknown type, empty group
		a.Authenticator = &config.Authenticator{Type: config.BCRYPT}
		a.Accounter = &config.Accounter{Name: "x", Type: config.AccounterType(77)}
		a.Groups = []config.Group{{}}
		w.kc.fail = vpBool()
	default:
		// nothing configured at all
	}
	return config.ServerConfig{Secrets: []config.SecretConfig{vpScope("s1", "k", `["10.0.0.0/8"]`)}, Users: []config.User{a}}
}

var vpArgTemplates = []string{"service=shell", "service=ppp", "cmd=show", "cmd=", "protocol=ip", "a=b", "a*b", "cmd*", "shell"}

// c = configuration (0..2) * 6 + flow; flow 0..2: free bytes (short) of packet type flow+1,
// flow 3..5: spec-built request of packet type flow-2 with free field contents
func vpH_C14_bytes__18(c int) {
	flow0 := c % 6
	if flow0 >= 3 && c/6 >= vpBound("c14structured", 0) {
		return
	}
	vpRegisterHashes()
	w := vpNewWorld()
	_, h := w.handlerFor(vpOddConfig(c/6, w))
	if h == nil {
		return
	}
	flow := c % 6
	if flow >= 3 && c/6 >= vpBound("c14structured", 0) {
		return // spec-built flows: thorough tier (the quick tier relies on C10/C11/C12 for them)
	}
	typ := uint8(flow%3 + 1)
	sid := vpU32()
	minor := vpU8() & 1
	var stream []byte
	npk := 1
	if flow < 3 {
		n := vpBound("c14bytes", 8)
		body := vpBytesN(vpInt(0, n))
		if typ == 2 && len(body) > 7 {
			vpAssume(body[7] <= 1)
		}
		stream = vpPacket(minor, typ, 1, sid, body)
		if typ == 1 && vpBool() {
			// free bytes into the "waiting for the user name" state
			stream = vpPacket(0, 1, 1, sid, vpAuthenStartBody(1, 0, 1, 1, "", "", "", ""))
			stream = append(stream, vpPacket(0, 1, 3, sid, body)...)
			npk = 2
		}
	} else {
		u := vpStrN(vpInt(0, 1))
		vpAssume(vpIsASCII(u))
		switch typ {
		case 1:
			d := vpStrN(vpInt(0, 2))
			m := vpStrN(vpInt(0, 2))
			vpAssume(vpIsASCII(m))
			atype := uint8(vpInt(1, 6))
			if atype == 1 {
				vpAssume(vpIsASCII(d))
			}
			stream = vpPacket(minor, 1, 1, sid, vpAuthenStartBody([]uint8{1, 2, 4}[vpInt(0, 2)], vpU8()&15, atype, uint8(vpInt(0, 9)), u, "", "", d))
			stream = append(stream, vpPacket(minor, 1, 3, sid, vpAuthenContinueBody(vpU8(), m, ""))...)
			npk = 2
		case 2:
			nargs := vpIntC(0, 2)
			var args []string
			for i := 0; i < nargs; i++ {
				args = append(args, vpArgTemplates[vpIntC(0, len(vpArgTemplates)-1)])
			}
			stream = vpPacket(minor, 2, 1, sid, vpAuthorRequestBody(6, vpU8()&15, uint8(vpInt(0, 6)), uint8(vpInt(0, 9)), u, args))
		default:
			a := vpStrN(vpInt(0, 2))
			vpAssume(vpIsASCII(a))
			stream = vpPacket(minor, 3, vpU8()|1, sid, vpAcctRequestBody(vpU8(), 6, vpU8()&15, uint8(vpInt(0, 6)), uint8(vpInt(0, 9)), u, "", "", []string{a}))
		}
	}
	conn := w.run(h, stream)
	vpAssert(len(conn.Out()) <= npk, "C07.handlers.at-most-one-reply-per-request.free-bytes")
	vpAssert(conn.Closes() == 1, "C14.connection-closed-at-eof")
	vpReach("C14.bytes.end")
}
