//go:build verif

package loader

// C11 — authorization obeys policy: first match, whole-string match, default deny.
// The reference evaluator is written from the property text; "matches the entire argument
// string" is stated as the standard library's match of \A(?:pattern)\z, independently of the
// anchoring code under test.

import (
	"regexp"
	"strings"

	tq "github.com/facebookincubator/tacquito"

	"github.com/facebookincubator/tacquito/cmds/server/config"
)

var vpRuleNames = []string{"*", "show", " conf "}
var vpCmds = []string{"show", "conf", "x"}

// vpPrintable: bytes 0x21..0x7e (no blanks: trimming of argument values is not what this
// property is about)
func vpPrintable(s string) bool {
	for i := 0; i < len(s); i++ {
		if s[i] < 0x21 || s[i] > 0x7e {
			return false
		}
	}
	return true
}

func vpAuthorConfig(cmds []config.Command, groupCmds []config.Command) config.ServerConfig {
	a := config.User{Name: "a", Scopes: []string{"s1"}, Commands: cmds}
	if groupCmds != nil {
		a.Groups = []config.Group{{Name: "g", Commands: groupCmds}}
	}
	return config.ServerConfig{Secrets: []config.SecretConfig{vpScope("s1", "k", `["10.0.0.0/8"]`)}, Users: []config.User{a}}
}

// vpFullMatch: does pattern match the entire string?  (false, err) for an invalid pattern.
func vpFullMatch(pattern, s string) (bool, error) {
	return regexp.MatchString(`\A(?:`+pattern+`)\z`, s)
}

// vpEvalCommands is the reference evaluator of the documented command semantics.
func vpEvalCommands(rules []config.Command, cmd, argstr string) bool {
	for _, r := range rules {
		name := strings.TrimSpace(r.Name)
		if name == "*" {
			return r.Action == config.PERMIT
		}
		if name != cmd {
			continue
		}
		if len(r.Match) == 0 {
			return r.Action == config.PERMIT
		}
		for _, p := range r.Match {
			p = strings.TrimSpace(p)
			if p == "" {
				continue
			}
			ok, err := vpFullMatch(p, argstr)
			if err != nil {
				return false
			}
			if ok {
				return r.Action == config.PERMIT
			}
		}
	}
	return false
}

func vpCommandRequest(user, cmd string, cmdArgs []string, cr bool) []byte {
	args := []string{"service=shell", "cmd=" + cmd}
	for _, a := range cmdArgs {
		args = append(args, "cmd-arg="+a)
	}
	if cr {
		args = append(args, "cmd-arg=<cr>")
	}
	return vpAuthorRequestBody(6, 1, 1, 1, user, args)
}

// rule order, wildcard, user rules before group rules, default deny (no patterns)
func vpH_C11_rules__6(c int) {
	mk := func() config.Command {
		return config.Command{Name: vpRuleNames[vpIntC(0, len(vpRuleNames)-1)], Action: config.Action(vpInt(0, 2))}
	}
	nUser := c % 3
	var user []config.Command
	for i := 0; i < nUser; i++ {
		user = append(user, mk())
	}
	var group []config.Command
	if c/3 == 1 {
		group = []config.Command{mk()}
	}
	w := vpNewWorld()
	_, h := w.handlerFor(vpAuthorConfig(user, group))
	if h == nil {
		return
	}
	cmd := vpCmds[vpIntC(0, len(vpCmds)-1)]
	conn := w.run(h, vpPacket(0, 2, 1, vpU32(), vpCommandRequest("a", cmd, nil, false)))
	out := conn.Out()
	vpAssert(len(out) == 1, "C07.handlers.one-reply-per-authorization-request")
	if len(out) != 1 || len(out[0]) < 13 {
		return
	}
	all := append(append([]config.Command{}, user...), group...)
	want := vpEvalCommands(all, cmd, "")
	st := out[0][12]
	if want {
		vpReach("C11.rules.permit")
		vpAssert(st == 0x01, "C11.rules.first-applying-rule-permits")
	} else {
		vpReach("C11.rules.deny")
		vpAssert(st == 0x10, "C11.rules.deny-or-no-rule-is-FAIL")
	}
}

var vpPatterns = []string{
	"ab", "a|b", "^a|b", "a|b$", "a|ab", "a\\$", "(", "a.*",
	"a\\|b",
	"^a|b$", "(a|b)", "^(a|b)$", ".*b", "\\^a",
	"[ab]c", "a+", "a?b", "ab|", "|ab", "^", "$", " a ", "[", "a**", "a b", "a|b|c",
}

// whole-string matching: one PERMIT rule with one pattern from the corpus, a symbolic argument string
func vpH_C11_anchor__26(c int) {
	if c >= vpBound("c11corpus", 26) {
		return // the quick tier runs the head of the corpus
	}
	pat := vpPatterns[c]
	rules := []config.Command{{Name: "show", Action: config.PERMIT, Match: []string{pat}}}
	if vpBool() {
		rules[0].Action = config.DENY
		rules = append(rules, config.Command{Name: "show", Action: config.PERMIT})
	}
	w := vpNewWorld()
	_, h := w.handlerFor(vpAuthorConfig(rules, nil))
	if h == nil {
		return
	}
	n := vpBound("c11arglen", 3)
	nargs := vpIntC(0, vpBound("c11args", 2))
	var cmdArgs []string
	for i := 0; i < nargs; i++ {
		a := vpStrN(vpInt(0, n))
		vpAssume(vpPrintable(a))
		cmdArgs = append(cmdArgs, a)
	}
	// witness shaping: letters make a readable counterexample
	conn := w.run(h, vpPacket(0, 2, 1, vpU32(), vpCommandRequest("a", "show", cmdArgs, vpBool())))
	out := conn.Out()
	vpAssert(len(out) == 1, "C07.handlers.one-reply-per-authorization-request")
	if len(out) != 1 || len(out[0]) < 13 {
		return
	}
	want := vpEvalCommands(rules, "show", strings.Join(cmdArgs, " "))
	st := out[0][12]
	if want {
		vpReach("C11.anchor.permit")
		vpAssert(st == 0x01, "C11.anchor.whole-string-match-permits")
	} else {
		vpReach("C11.anchor.deny")
		vpAssert(st == 0x10, "C11.anchor.partial-match-must-not-apply")
	}
}

// unknown users, users named differently from the request, undecodable requests: never granted
func vpH_C11_refuse() {
	rules := []config.Command{{Name: "*", Action: config.PERMIT}}
	w := vpNewWorld()
	_, h := w.handlerFor(vpAuthorConfig(rules, nil))
	if h == nil {
		return
	}
	var body []byte
	if vpBool() {
		u := vpStrN(vpInt(0, 2))
		vpAssume(vpIsASCII(u))
		vpAssume(u != "a")
		body = vpCommandRequest(u, "show", nil, false)
	} else {
		body = vpBytesN(vpInt(0, 9))
		if len(body) > 7 {
			vpAssume(body[7] <= 1)
		}
	}
	conn := w.run(h, vpPacket(0, 2, 1, vpU32(), body))
	out := conn.Out()
	vpAssert(len(out) == 1, "C07.handlers.one-reply-per-authorization-request")
	if len(out) != 1 || len(out[0]) < 13 {
		return
	}
	st := out[0][12]
	vpAssert(st == 0x10 || st == 0x11, "C11.refuse.unknown-user-or-undecodable-is-never-granted")
	vpReach("C11.refuse.end")
}

// the exported authorizer handler invoked for a request that names another user: one reply
func vpH_C07_stringy_direct() {
	w := vpNewWorld()
	h, err := w.ld.authorizerProvider.New(config.User{Name: "a", Scopes: []string{"s1"}, Commands: []config.Command{{Name: "*", Action: config.PERMIT}}})
	vpAssert(err == nil, "C07.stringy.built")
	u := vpStrN(vpInt(0, 1))
	vpAssume(vpIsASCII(u))
	conn := w.run(h, vpPacket(0, 2, 1, vpU32(), vpCommandRequest(u, "show", nil, false)))
	out := conn.Out()
	vpAssert(len(out) == 1, "C07.handlers.one-reply-per-authorization-request.direct")
	if len(out) == 1 && len(out[0]) >= 13 && u != "a" {
		vpAssert(out[0][12] == 0x10, "C11.direct.other-user-is-FAIL")
	}
	vpReach("C07.stringy.end")
}

// ---------------------------------------------------------------- session (service) authorization

// services configured for the user; each may be conditioned on the connection's scope
func vpSessionServices(c int) []config.Service {
	shell := config.Service{Name: "shell", SetValues: []config.Value{{Name: "priv-lvl", Values: []string{"15"}}}}
	ppp := config.Service{Name: " ppp ", SetValues: []config.Value{{Name: "addr", Values: []string{"1"}}, {Name: "mtu", Values: []string{"9"}}}}
	switch c {
	case 0:
		return []config.Service{shell, ppp}
	case 1:
		shell.Match = []config.Value{{Name: "scope", Values: []string{"s1"}}}
		return []config.Service{shell, ppp}
	case 2:
		// only granted on another scope
		shell.Match = []config.Value{{Name: "scope", Values: []string{"prod"}}}
		return []config.Service{shell}
	default:
		shell.Match = []config.Value{{Name: "protocol", Values: []string{"ip"}}}
		return []config.Service{ppp, shell}
	}
}

var vpSessionArgs = []string{"service=shell", "service=ppp", "service=x", "protocol=ip", "scope=prod", "scope=s1", "cmd="}

// c = service configuration (0..3)
func vpH_C11_session__4(c int) {
	services := vpSessionServices(c)
	a := config.User{Name: "a", Scopes: []string{"s1"}, Services: services}
	cfg := config.ServerConfig{Secrets: []config.SecretConfig{vpScope("s1", "k", `["10.0.0.0/8"]`)}, Users: []config.User{a}}
	w := vpNewWorld()
	_, h := w.handlerFor(cfg)
	if h == nil {
		return
	}
	n := vpIntC(1, 2)
	var args []string
	first := vpIntC(0, len(vpSessionArgs)-1)
	args = append(args, vpSessionArgs[first])
	if n == 2 {
		second := vpIntC(0, len(vpSessionArgs)-1)
		vpAssume(second != first)
		args = append(args, vpSessionArgs[second])
	}
	conn := w.run(h, vpPacket(0, 2, 1, vpU32(), vpAuthorRequestBody(6, 1, 1, 1, "a", args)))
	out := conn.Out()
	vpAssert(len(out) == 1, "C07.handlers.one-reply-per-authorization-request")
	if len(out) != 1 || len(out[0]) < 13 {
		return
	}
	// ---- reference evaluation: the request's arguments plus the connection's scope
	kv := map[string]string{}
	for _, x := range args {
		i := strings.IndexAny(x, "=*")
		kv[x[:i]] = x[i+1:]
	}
	kv["scope"] = "s1" // the connection's scope, whatever the client claims
	var want []string
	for _, sv := range services {
		name := strings.TrimSpace(sv.Name)
		named := false
		for _, x := range append(append([]string{}, args...), "scope=s1") {
			i := strings.IndexAny(x, "=*")
			if x[:i] == name || x[i+1:] == name {
				named = true
			}
		}
		if !named {
			continue
		}
		ok := true
		for _, m := range sv.Match {
			v, has := kv[m.Name]
			if !has {
				ok = false
			}
			for _, mv := range m.Values {
				if v != mv {
					ok = false
				}
			}
		}
		if !ok {
			continue
		}
		for _, v := range sv.SetValues {
			want = append(want, v.Name+"="+strings.Join(v.Values, " "))
		}
	}
	var reply tq.AuthorReply
	err := reply.UnmarshalBinary(out[0][12:])
	vpAssert(err == nil, "C11.session.reply-decodes")
	if err != nil {
		return
	}
	if len(want) == 0 {
		vpReach("C11.session.fail")
		vpAssert(reply.Status == tq.AuthorStatusFail, "C11.session.no-applicable-service-is-FAIL")
		return
	}
	vpReach("C11.session.pass")
	vpAssert(reply.Status == tq.AuthorStatusPassAdd, "C11.session.pass-add")
	vpAssert(len(reply.Args) == len(want), "C11.session.exactly-the-configured-values.count")
	for i := 0; i < len(want) && i < len(reply.Args); i++ {
		vpAssert(string(reply.Args[i]) == want[i], "C11.session.exactly-the-configured-values")
	}
}
