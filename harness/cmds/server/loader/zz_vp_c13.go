//go:build verif

package loader

// C13 — admission: deny beats allow, first matching scope wins, users stay scoped.
// The lookup is driven through the real Loader.updates loop (configuration case, then query
// case with its closure); the remote address is fully symbolic.

import (
	"context"
	"net"
	"time"

	dto "github.com/prometheus/client_model/go"

	tq "github.com/facebookincubator/tacquito"
	"github.com/facebookincubator/tacquito/cmds/server/config"
)

type vpUnmarshaled struct{ ch chan config.ServerConfig }

func (u vpUnmarshaled) Config() chan config.ServerConfig { return u.ch }

type vpOtherAddr struct{}

func (vpOtherAddr) Network() string { return "unix" }
func (vpOtherAddr) String() string  { return "/tmp/sock" }

// vpLookup publishes cfg to a loader and asks it for remote, through the real updates() loop.
func vpLookup(w *vpWorld, cfg config.ServerConfig, remote net.Addr) ([]byte, tq.Handler, error) {
	ch := make(chan config.ServerConfig, 1)
	ch <- cfg
	w.ld.unmarshaled = vpUnmarshaled{ch}
	w.ld.query = make(chan queryGet, 1)
	w.ld.warm = make(chan struct{})
	q := queryGet{ctx: context.Background(), remote: remote, cb: make(chan secretProvider, 1)}
	if vpSymbolic() {
		// the engine runs the loop right here: configuration first, then the queued query
		w.ld.query <- q
		vpGo(func() { w.ld.updates() })
	} else {
		go w.ld.updates()
		<-w.ld.warm
		w.ld.query <- q
	}
	sp := <-q.cb
	return sp.secret, sp.handler, sp.err
}

type vpPrefix struct {
	ip   []byte // 4 or 16 bytes
	bits int
}

// vpIn: does the prefix contain the address?  Written on bits, with Go's documented treatment of
// IPv4-mapped IPv6 addresses (they are IPv4 addresses).
func vpIn(p vpPrefix, ip []byte) bool {
	a := ip
	if len(ip) == 16 {
		mapped := true
		for i := 0; i < 10; i++ {
			if ip[i] != 0 {
				mapped = false
			}
		}
		if ip[10] != 0xff || ip[11] != 0xff {
			mapped = false
		}
		if mapped {
			a = ip[12:16]
		}
	}
	if len(a) != len(p.ip) {
		return false
	}
	for i := 0; i < len(a); i++ {
		n := p.bits - 8*i
		var m byte
		switch {
		case n >= 8:
			m = 0xff
		case n <= 0:
			m = 0
		default:
			m = byte(0xff) << uint(8-n)
		}
		if a[i]&m != p.ip[i]&m {
			return false
		}
	}
	return true
}

func vpAny(ps []vpPrefix, ip []byte) bool {
	for _, p := range ps {
		if vpIn(p, ip) {
			return true
		}
	}
	return false
}

type vpScopeSpec struct {
	name     string
	key      string
	json     string
	prefixes []vpPrefix
	users    []string
}

type vpAdmission struct {
	scopes []vpScopeSpec
	deny   []string
	denyP  []vpPrefix
	allow  []string
	allowP []vpPrefix
}

var v6net = []byte{0x20, 0x01, 0x0d, 0xb8, 0, 0, 0, 0, 0, 0, 0, 0, 0, 0, 0, 0}

func vpAdmissionCorpus(c int) vpAdmission {
	s1 := vpScopeSpec{"s1", "key-one", `["10.0.0.0/8"]`, []vpPrefix{{[]byte{10, 0, 0, 0}, 8}}, []string{"a", "c"}}
	s2 := vpScopeSpec{"s2", "key-two", `["10.1.0.0/16","192.168.1.0/24"]`, []vpPrefix{{[]byte{10, 1, 0, 0}, 16}, {[]byte{192, 168, 1, 0}, 24}}, []string{"b", "c"}}
	s3 := vpScopeSpec{"s3", "key-six", `["2001:db8::/32"]`, []vpPrefix{{v6net, 32}}, []string{"a"}}
	empty := vpScopeSpec{"s0", "key-zero", `["10.0.0.0/8"]`, []vpPrefix{{[]byte{10, 0, 0, 0}, 8}}, nil}
	switch c {
	case 0:
		return vpAdmission{scopes: []vpScopeSpec{s1, s2}}
	case 1:
		// more specific scope first, then the covering one
		return vpAdmission{scopes: []vpScopeSpec{s2, s1}}
	case 2:
		// deny inside the scope, allow list configured
		return vpAdmission{scopes: []vpScopeSpec{s1, s2}, deny: []string{"10.1.2.0/24"}, denyP: []vpPrefix{{[]byte{10, 1, 2, 0}, 24}},
			allow: []string{"10.1.0.0/16", "192.168.0.0/16"}, allowP: []vpPrefix{{[]byte{10, 1, 0, 0}, 16}, {[]byte{192, 168, 0, 0}, 16}}}
	case 3:
		// deny and allow overlap completely: deny wins
		return vpAdmission{scopes: []vpScopeSpec{s1}, deny: []string{"10.0.0.0/9"}, denyP: []vpPrefix{{[]byte{10, 0, 0, 0}, 9}},
			allow: []string{"10.0.0.0/8"}, allowP: []vpPrefix{{[]byte{10, 0, 0, 0}, 8}}}
	case 4:
		// IPv6 scope next to an IPv4 scope, a scope without users in front (it is skipped)
		return vpAdmission{scopes: []vpScopeSpec{empty, s3, s1}}
	default:
		// allow list only
		return vpAdmission{scopes: []vpScopeSpec{s2, s3}, allow: []string{"192.168.1.128/25", "2001:db8:1::/48"},
			allowP: []vpPrefix{{[]byte{192, 168, 1, 128}, 25}, {[]byte{0x20, 0x01, 0x0d, 0xb8, 0, 1, 0, 0, 0, 0, 0, 0, 0, 0, 0, 0}, 48}}}
	}
}

func (a vpAdmission) config() config.ServerConfig {
	cfg := config.ServerConfig{PrefixDeny: a.deny, PrefixAllow: a.allow}
	seen := map[string]bool{}
	for _, s := range a.scopes {
		cfg.Secrets = append(cfg.Secrets, vpScope(s.name, s.key, s.json))
	}
	for _, s := range a.scopes {
		for _, u := range s.users {
			if seen[u] {
				continue
			}
			seen[u] = true
			usr := config.User{Name: u, Commands: []config.Command{{Name: "*", Action: config.PERMIT}}}
			for _, t := range a.scopes {
				for _, v := range t.users {
					if v == u {
						usr.Scopes = append(usr.Scopes, t.name)
					}
				}
			}
			cfg.Users = append(cfg.Users, usr)
		}
	}
	return cfg
}

// c = corpus entry (0..5) * 4 + address kind (0: 4-byte IPv4, 1: 16-byte, 2: IPv4-mapped, 3: not TCP)
func vpH_C13_lookup__24(c int) {
	adm := vpAdmissionCorpus(c / 4)
	kind := c % 4
	if kind == 1 && c/4 != 4 && c/4 != 5 && vpBound("c13v6all", 0) == 0 {
		return // 16-byte addresses against the IPv4-only corpus entries: thorough tier
	}
	var remote net.Addr
	var ip []byte
	switch kind {
	case 0:
		ip = vpBytesN(4)
		remote = &net.TCPAddr{IP: net.IP(ip), Port: 40000}
	case 1:
		// the leading bytes are free, the rest is zero (quick tier: 6 free bytes, thorough: all 16)
		nfree := vpBound("c13v6free", 6)
		ip = append(vpBytesN(nfree), make([]byte, 16-nfree)...)
		remote = &net.TCPAddr{IP: net.IP(ip), Port: 40000}
	case 2:
		v4 := vpBytesN(4)
		ip = append([]byte{0, 0, 0, 0, 0, 0, 0, 0, 0, 0, 0xff, 0xff}, v4...)
		remote = &net.TCPAddr{IP: net.IP(ip), Port: 40000}
	default:
		remote = vpOtherAddr{}
	}
	w := vpNewWorld()
	secret, h, err := vpLookup(w, adm.config(), remote)
	served := err == nil && secret != nil && h != nil
	// ---- independent admission decision
	want := -1
	if kind != 3 {
		denied := vpAny(adm.denyP, ip)
		allowed := len(adm.allowP) == 0 || vpAny(adm.allowP, ip)
		if !denied && allowed {
			for i, s := range adm.scopes {
				if len(s.users) > 0 && vpAny(s.prefixes, ip) {
					want = i
					break
				}
			}
		}
	}
	if want < 0 {
		vpReach("C13.refused")
		vpAssert(!served, "C13.refused-address-is-not-served")
		return
	}
	vpReach("C13.served")
	vpAssert(served, "C13.admissible-address-is-served")
	if !served {
		return
	}
	vpAssert(string(secret) == adm.scopes[want].key, "C13.secret-of-the-first-matching-scope")
	// users: exactly those assigned to that scope exist behind the returned handler
	names := []string{"a", "b", "c", "z"}
	who := names[vpIntC(0, len(names)-1)]
	conn := w.run(h, vpPacket(0, 2, 1, vpU32(), vpCommandRequest(who, "show", nil, false)))
	out := conn.Out()
	vpAssert(len(out) == 1, "C13.one-reply")
	if len(out) != 1 || len(out[0]) < 13 {
		return
	}
	in := false
	for _, u := range adm.scopes[want].users {
		if u == who {
			in = true
		}
	}
	if in {
		vpAssert(out[0][12] == 0x01, "C13.user-of-the-scope-is-known")
	} else {
		vpAssert(out[0][12] == 0x10, "C13.user-of-another-scope-does-not-exist-here")
	}
	vpReach("C13.end")
}

// a refused connection is closed with no bytes written and no handler invoked
func vpH_C13_refused() {
	adm := vpAdmissionCorpus(2)
	w := vpNewWorld()
	ip := vpBytesN(4)
	vpAssume(ip[0] != 10 && ip[0] != 192) // outside every scope
	cfg := adm.config()
	providers := w.ld.build(cfg)
	sp := vpStaticProvider{w: w, providers: providers}
	conn := tq.VPNewConn(vpPacket(0, 2, 1, 7, vpCommandRequest("a", "show", nil, false)))
	tq.VPServe(tq.VPNewCtx(), vpAddrConn{conn, &net.TCPAddr{IP: net.IP(ip), Port: 1}}, w.log, sp)
	vpAssert(conn.Closes() == 1, "C13.refused-connection-is-closed")
	vpAssert(len(conn.Out()) == 0, "C13.refused-connection-gets-no-bytes")
	vpAssert(conn.Reads() == 0, "C13.refused-connection-is-not-read")
	vpReach("C13.refused.end")
}

type vpStaticProvider struct {
	w         *vpWorld
	providers []tq.SecretProvider
}

func (p vpStaticProvider) Get(ctx context.Context, remote net.Addr) ([]byte, tq.Handler, error) {
	return p.w.ld.get(ctx, p.providers, remote)
}

// vpAddrConn: a scripted connection with a chosen remote address
type vpAddrConn struct {
	*tq.VPConn
	remote net.Addr
}

func (c vpAddrConn) RemoteAddr() net.Addr { return c.remote }

// ---------------------------------------------------------------- C16, consumer side

// vpLookup2 publishes two configurations one after the other and then asks for remote.
func vpLookup2(w *vpWorld, cfg1, cfg2 config.ServerConfig, remote net.Addr) ([]byte, tq.Handler, error) {
	ch := make(chan config.ServerConfig, 2)
	w.ld.unmarshaled = vpUnmarshaled{ch}
	w.ld.query = make(chan queryGet, 1)
	w.ld.warm = make(chan struct{})
	q := queryGet{ctx: context.Background(), remote: remote, cb: make(chan secretProvider, 1)}
	if vpSymbolic() {
		ch <- cfg1
		ch <- cfg2
		w.ld.query <- q
		vpGo(func() { w.ld.updates() })
	} else {
		n0 := vpBuildUpdates()
		go w.ld.updates()
		ch <- cfg1
		ch <- cfg2
		for vpBuildUpdates() < n0+2 {
			time.Sleep(time.Millisecond)
		}
		w.ld.query <- q
	}
	sp := <-q.cb
	return sp.secret, sp.handler, sp.err
}

// number of configuration rebuilds the loader has performed (native side only)
func vpBuildUpdates() int {
	var m dto.Metric
	if err := buildUpdate.Write(&m); err != nil {
		return 0
	}
	return int(m.GetCounter().GetValue())
}

// A lookup after a reload answers exactly like a lookup on a loader that only ever saw the new
// configuration (filters and scopes removed from the file are gone).
// c = first configuration (0..5) * 6 + second configuration
func vpH_C16_consumer__36(c int) {
	adm1, adm2 := vpAdmissionCorpus(c/6), vpAdmissionCorpus(c%6)
	ip := vpBytesN(4)
	remote := &net.TCPAddr{IP: net.IP(ip), Port: 40000}
	w := vpNewWorld()
	s1, h1, e1 := vpLookup2(w, adm1.config(), adm2.config(), remote)
	f := vpNewWorld()
	s2, h2, e2 := vpLookup(f, adm2.config(), remote)
	served1 := e1 == nil && s1 != nil && h1 != nil
	served2 := e2 == nil && s2 != nil && h2 != nil
	vpAssert(served1 == served2, "C16.consumer.admission-after-reload-equals-fresh")
	if served1 && served2 {
		vpReach("C16.consumer.served")
		vpAssert(string(s1) == string(s2), "C16.consumer.secret-after-reload-equals-fresh")
	}
	vpReach("C16.consumer.end")
}
