package main

// Native replay: solver models become tapes, the same harness functions are compiled with
// `go test -tags verif -overlay` against the real code and run on those tapes.

import (
	"bufio"
	"bytes"
	"encoding/json"
	"fmt"
	"os"
	"os/exec"
	"path/filepath"
	"sort"
	"strings"
	"time"
)

type TapeFile struct {
	Harness string         `json:"harness"`
	Bounds  map[string]int `json:"bounds"`
	Tape    []TapeValue    `json:"tape"`
	// informational
	Property   string `json:"property,omitempty"`
	Obligation string `json:"obligation,omitempty"`
	Kind       string `json:"obligation_kind,omitempty"`
	Where      string `json:"where,omitempty"`
	Pkg        string `json:"pkg,omitempty"`
	Owner      string `json:"owner,omitempty"`
}

type ReplayResult struct {
	Harness string
	ID      string
	Kind    string
	Status  string // ok assert panic assume error crash
	Detail  string
	Obs     []string
	File    string
}

type replayItem struct {
	pkg  string // package import path
	tape TapeFile
	name string // file name
}

const driverSrc = `//go:build verif

package PKG

import (
	"encoding/json"
	"fmt"
	"os"
	"path/filepath"
	"sort"
	"testing"
)

func TestVPReplay(t *testing.T) {
	dir := os.Getenv("VP_TAPE_DIR")
	files, _ := filepath.Glob(filepath.Join(dir, "*.json"))
	sort.Strings(files)
	for _, f := range files {
		status, detail, obs := vpRunHarness(f, vpHarnessTable)
		b, _ := json.Marshal(map[string]interface{}{"file": filepath.Base(f), "status": status, "detail": detail, "obs": obs})
		fmt.Println("VPRESULT " + string(b))
	}
}
`

func relDir(pkgPath string) string {
	return strings.TrimPrefix(strings.TrimPrefix(pkgPath, repoModule), "/")
}

// runNative runs the given tapes natively, one `go test` per package.
func runNative(ld *Loaded, items []replayItem, raceDetector bool) (map[string]ReplayResult, error) {
	res := map[string]ReplayResult{}
	if len(items) == 0 {
		return res, nil
	}
	scratch, err := os.MkdirTemp("", "vp-replay-")
	if err != nil {
		return nil, err
	}
	defer os.RemoveAll(scratch)
	ovDir := filepath.Join(scratch, "ov")
	os.MkdirAll(ovDir, 0o755)
	replace := map[string]string{}
	n := 0
	add := func(virtual string, content []byte) error {
		n++
		real := filepath.Join(ovDir, fmt.Sprintf("f%03d_%s", n, filepath.Base(virtual)))
		if err := os.WriteFile(real, content, 0o644); err != nil {
			return err
		}
		replace[virtual] = real
		return nil
	}
	for v, c := range ld.overlay {
		if err := add(v, c); err != nil {
			return nil, err
		}
	}
	byPkg := map[string][]replayItem{}
	for _, it := range items {
		byPkg[it.pkg] = append(byPkg[it.pkg], it)
	}
	for pkg := range byPkg {
		dir := relDir(pkg)
		name := ld.apiPkgs[dir]
		if name == "" {
			return nil, fmt.Errorf("no harness package for %s", pkg)
		}
		var sb strings.Builder
		sb.WriteString("//go:build verif\n\npackage " + name + "\n\nvar vpHarnessTable = map[string]interface{}{\n")
		for _, fn := range ld.Harnesses("vpH_") {
			if fn.Pkg.Pkg.Path() == pkg {
				fmt.Fprintf(&sb, "\t%q: %s,\n", fn.Name(), fn.Name())
			}
		}
		sb.WriteString("}\n")
		if err := add(filepath.Join(ld.repo, dir, "zz_vp_registry_test.go"), []byte(sb.String())); err != nil {
			return nil, err
		}
		if err := add(filepath.Join(ld.repo, dir, "zz_vp_replay_test.go"), []byte(strings.Replace(driverSrc, "package PKG", "package "+name, 1))); err != nil {
			return nil, err
		}
	}
	ovJSON, _ := json.Marshal(map[string]interface{}{"Replace": replace})
	ovPath := filepath.Join(scratch, "overlay.json")
	os.WriteFile(ovPath, ovJSON, 0o644)
	pkgs := make([]string, 0, len(byPkg))
	for p := range byPkg {
		pkgs = append(pkgs, p)
	}
	sort.Strings(pkgs)
	for _, pkg := range pkgs {
		tdir := filepath.Join(scratch, "tapes_"+strings.ReplaceAll(relDir(pkg), "/", "_"))
		os.MkdirAll(tdir, 0o755)
		for _, it := range byPkg[pkg] {
			b, _ := json.MarshalIndent(it.tape, "", " ")
			os.WriteFile(filepath.Join(tdir, it.name), b, 0o644)
		}
		args := []string{"test", "-tags", "verif", "-mod=mod", "-vet=off", "-count=1", "-overlay", ovPath, "-run", "^TestVPReplay$", "-v", "-timeout", "20m"}
		if raceDetector {
			args = append(args, "-race")
		}
		args = append(args, "./"+relDir(pkg))
		cmd := exec.Command("go", args...)
		cmd.Dir = ld.repo
		cmd.Env = append(os.Environ(), "VP_TAPE_DIR="+tdir, "GOFLAGS=-mod=mod", "GOPROXY=off", "GOSUMDB=off", "GOTOOLCHAIN=local")
		var out bytes.Buffer
		cmd.Stdout = &out
		cmd.Stderr = &out
		start := time.Now()
		runErr := cmd.Run()
		_ = start
		sc := bufio.NewScanner(&out)
		sc.Buffer(make([]byte, 1<<20), 1<<26)
		seen := map[string]bool{}
		var other []string
		for sc.Scan() {
			line := sc.Text()
			if i := strings.Index(line, "VPRESULT "); i >= 0 {
				var r struct {
					File   string   `json:"file"`
					Status string   `json:"status"`
					Detail string   `json:"detail"`
					Obs    []string `json:"obs"`
				}
				if err := json.Unmarshal([]byte(line[i+9:]), &r); err == nil {
					res[r.File] = ReplayResult{Status: r.Status, Detail: r.Detail, Obs: r.Obs, File: r.File}
					seen[r.File] = true
				}
			} else {
				other = append(other, line)
			}
		}
		for _, it := range byPkg[pkg] {
			if !seen[it.name] {
				d := "no result from native run"
				if runErr != nil {
					d += ": " + runErr.Error()
				}
				if len(other) > 0 {
					tail := other
					if len(tail) > 12 {
						tail = tail[len(tail)-12:]
					}
					d += " | " + strings.Join(tail, " | ")
				}
				res[it.name] = ReplayResult{Status: "crash", Detail: d, File: it.name}
			}
		}
	}
	return res, nil
}

func tapeFor(r *HarnessReport, tape []TapeValue) TapeFile {
	return TapeFile{Harness: r.Name, Bounds: r.Bounds, Tape: tape, Pkg: r.Pkg, Owner: r.Owner}
}

// replayAll replays every violation candidate natively.
func replayAll(ld *Loaded, reps []*HarnessReport, cfg Config) []ReplayResult {
	var items []replayItem
	type key struct{ r, v int }
	idx := map[string]key{}
	for ri, r := range reps {
		for vi, v := range r.Violations {
			name := fmt.Sprintf("viol_%03d_%03d.json", ri, vi)
			tf := tapeFor(r, v.Tape)
			tf.Obligation, tf.Kind, tf.Where = v.ID, v.Kind, v.Where
			items = append(items, replayItem{pkg: r.Pkg, tape: tf, name: name})
			idx[name] = key{ri, vi}
		}
	}
	res, err := runNative(ld, items, false)
	var out []ReplayResult
	if err != nil {
		fmt.Println("replay error:", err)
		return nil
	}
	names := make([]string, 0, len(res))
	for n := range res {
		names = append(names, n)
	}
	sort.Strings(names)
	for _, n := range names {
		k := idx[n]
		rr := res[n]
		rr.Harness = reps[k.r].Name
		rr.ID = reps[k.r].Violations[k.v].ID
		rr.Kind = reps[k.r].Violations[k.v].Kind
		out = append(out, rr)
	}
	return out
}

func reproduced(kind, id string, rr ReplayResult) bool {
	switch kind {
	case "assert":
		return rr.Status == "assert" && rr.Detail == id
	case "panic":
		return rr.Status == "panic"
	}
	return false
}
