package main

// Native-concrete bridge: library calls on fully concrete arguments are evaluated natively and
// the result is imported as concrete engine values; plus the models for bcrypt, json and leak
// checks used by the reference-server harnesses.

import (
	"encoding/json"
	"fmt"
	"go/types"
	"net"
	"os"
	"reflect"
	"sort"
	"strings"

	"golang.org/x/tools/go/ssa"
)

func init() {
	if vpAPI == nil {
		vpAPI = map[string]intrinsicFn{}
	}
	intrinsics["net.ParseCIDR"] = inParseCIDR
	intrinsics["(*net.IPNet).String"] = inIPNetString
	intrinsics["(net.IP).String"] = inIPString
	intrinsics["(*net.TCPAddr).String"] = inOpaqueStringer
	intrinsics["encoding/json.Unmarshal"] = inJSONUnmarshal
	intrinsics["encoding/json.Marshal"] = inJSONMarshal
	intrinsics["golang.org/x/crypto/bcrypt.CompareHashAndPassword"] = inBcryptCompare
	vpAPI["vpBcryptPair"] = vpBcryptPair
	vpAPI["vpLeaks"] = vpLeaks
	vpAPI["vpPrefer"] = vpPrefer
	vpAPI["vpIsConcrete"] = func(e *Engine, st *State, fn *ssa.Function, a []Value, s ssa.Instruction) []Outcome {
		str, ok := a[0].(*StrV)
		if !ok {
			return one(st, e.tm.False)
		}
		_, c := concreteString(str)
		return one(st, e.tm.Bool(c))
	}
}

// importValue converts a native Go value to an engine value of static type t.
func (e *Engine) importValue(st *State, v reflect.Value, t types.Type) Value {
	switch u := t.Underlying().(type) {
	case *types.Basic:
		switch {
		case isBoolType(t):
			return e.tm.Bool(v.Bool())
		case isStringType(t):
			return e.mkStr(v.String())
		}
		if w, signed, ok := intWidth(t); ok {
			if signed {
				return e.tm.BV(uint64(v.Int()), w)
			}
			return e.tm.BV(v.Uint(), w)
		}
	case *types.Slice:
		if v.IsNil() {
			return e.zero(t)
		}
		if isByteType(u.Elem()) {
			o := e.newObject("native", u.Elem())
			b := v.Bytes()
			st.mem.set(o, ArrExpr(arrFromBytes(e.tm, b)))
			n := e.c64(uint64(len(b)))
			return &SliceV{obj: o, off: e.c64(0), len: n, cap: n, bytes: true, max: len(b)}
		}
		cells := make([]Value, v.Len())
		for i := range cells {
			cells[i] = e.importValue(st, v.Index(i), u.Elem())
		}
		o := e.newObject("native", u.Elem())
		st.mem.set(o, &CellsV{cells})
		n := e.c64(uint64(len(cells)))
		return &SliceV{obj: o, off: e.c64(0), len: n, cap: n, max: len(cells)}
	case *types.Pointer:
		if v.IsNil() {
			return &PtrV{}
		}
		o := e.newObject("native", u.Elem())
		st.mem.set(o, e.valueToContent(e.importValue(st, v.Elem(), u.Elem())))
		return &PtrV{obj: o}
	case *types.Struct:
		f := make([]Value, u.NumFields())
		for i := range f {
			f[i] = e.importValue(st, v.Field(i), u.Field(i).Type())
		}
		return &StructV{f}
	case *types.Interface:
		if v.IsNil() {
			return &IfaceV{}
		}
		if err, ok := v.Interface().(error); ok {
			return e.newOpaqueError(err.Error(), nil, nil, e.mkStr(err.Error()))
		}
	}
	panic(unsupported("importValue of " + typeName(t)))
}

func argString(v Value) (string, bool) {
	s, ok := v.(*StrV)
	if !ok {
		return "", false
	}
	return concreteString(s)
}

func (e *Engine) argBytes(st *State, v Value) ([]byte, bool) {
	sl, ok := v.(*SliceV)
	if !ok {
		return nil, false
	}
	s, ok := concreteString(e.sliceAsStr(st, sl))
	return []byte(s), ok
}

func inParseCIDR(e *Engine, st *State, fn *ssa.Function, args []Value, site ssa.Instruction) []Outcome {
	s, ok := argString(args[0])
	if !ok {
		panic(unsupported("net.ParseCIDR on a symbolic string"))
	}
	ip, ipnet, err := net.ParseCIDR(s)
	res := fn.Signature.Results()
	var ev Value = &IfaceV{}
	if err != nil {
		ev = e.newOpaqueError(err.Error(), nil, nil, e.mkStr(err.Error()))
	}
	return one(st, &TupleV{[]Value{
		e.importValue(st, reflect.ValueOf(ip), res.At(0).Type()),
		e.importValue(st, reflect.ValueOf(ipnet), res.At(1).Type()),
		ev,
	}})
}

func (e *Engine) concreteIPNet(st *State, v Value) (*net.IPNet, bool) {
	p, ok := v.(*PtrV)
	if !ok || p.IsNil() {
		return nil, false
	}
	sv, ok := e.loadPtr(st, p).(*StructV)
	if !ok {
		return nil, false
	}
	ip, ok1 := e.argBytes(st, sv.f[0])
	mask, ok2 := e.argBytes(st, sv.f[1])
	if !ok1 || !ok2 {
		return nil, false
	}
	return &net.IPNet{IP: ip, Mask: mask}, true
}

func inIPNetString(e *Engine, st *State, fn *ssa.Function, args []Value, site ssa.Instruction) []Outcome {
	n, ok := e.concreteIPNet(st, args[0])
	if !ok {
		return one(st, e.opaqueString(st, "ipnet", args))
	}
	return one(st, e.mkStr(n.String()))
}

func inIPString(e *Engine, st *State, fn *ssa.Function, args []Value, site ssa.Instruction) []Outcome {
	if b, ok := e.argBytes(st, args[0]); ok {
		return one(st, e.mkStr(net.IP(b).String()))
	}
	return one(st, e.opaqueString(st, "ip", args))
}

func inOpaqueStringer(e *Engine, st *State, fn *ssa.Function, args []Value, site ssa.Instruction) []Outcome {
	return one(st, e.opaqueString(st, "stringer", args))
}

// json.Unmarshal: concrete input into *[]string (the only shape the repository code needs with
// concrete data: the prefix list of a secret provider)
func inJSONUnmarshal(e *Engine, st *State, fn *ssa.Function, args []Value, site ssa.Instruction) []Outcome {
	if in, ok := args[0].(*SliceV); ok && in.obj != nil {
		if _, isDoc := e.docs[in.obj]; isDoc {
			return e.docUnmarshal(st, args, "json", site)
		}
	}
	data, ok := e.argBytes(st, args[0])
	if !ok {
		panic(unsupported("json.Unmarshal of symbolic bytes"))
	}
	tgt, ok := args[1].(*IfaceV)
	if !ok || tgt.typ == nil {
		panic(unsupported("json.Unmarshal target"))
	}
	pt, ok := tgt.typ.(*types.Pointer)
	if !ok {
		panic(unsupported("json.Unmarshal target is not a pointer"))
	}
	if sl, ok := pt.Elem().Underlying().(*types.Slice); ok && isStringType(sl.Elem()) {
		var out []string
		if err := json.Unmarshal(data, &out); err != nil {
			return one(st, e.newOpaqueError(err.Error(), nil, nil, e.mkStr(err.Error())))
		}
		e.storePtr(st, tgt.val.(*PtrV), e.importValue(st, reflect.ValueOf(out), pt.Elem()))
		return one(st, &IfaceV{})
	}
	panic(unsupported("json.Unmarshal into " + typeName(pt.Elem())))
}

// fingerprint of a value by content (term identities), used to give equal values equal JSON
func (e *Engine) fingerprint(st *State, v Value, sb *strings.Builder, depth int) {
	if depth > 8 {
		sb.WriteString("?")
		return
	}
	switch x := v.(type) {
	case nil:
		sb.WriteString("nil")
	case *Term:
		fmt.Fprintf(sb, "t%d", x.id)
	case *StrV:
		if bs, ok := e.strByteTerms(x); ok {
			sb.WriteString("s[")
			for _, b := range bs {
				fmt.Fprintf(sb, "%d,", b.id)
			}
			sb.WriteString("]")
		} else {
			fmt.Fprintf(sb, "s(%p,%d,%d)", x.arr, x.off.id, x.len.id)
		}
	case *SliceV:
		if x.obj == nil {
			sb.WriteString("[]")
			return
		}
		if x.bytes {
			e.fingerprint(st, e.sliceAsStr(st, x), sb, depth+1)
			return
		}
		cv, _ := st.mem.get(x.obj)
		cells := cv.(*CellsV).c
		off, _ := x.off.ConstVal()
		n, _ := x.len.ConstVal()
		sb.WriteString("[")
		for _, c := range cells[off : off+n] {
			e.fingerprint(st, c, sb, depth+1)
			sb.WriteString(";")
		}
		sb.WriteString("]")
	case *StructV:
		sb.WriteString("{")
		for _, f := range x.f {
			e.fingerprint(st, f, sb, depth+1)
			sb.WriteString(";")
		}
		sb.WriteString("}")
	case *IfaceV:
		if x.typ == nil {
			sb.WriteString("inil")
		} else {
			sb.WriteString(typeName(x.typ) + ":")
			e.fingerprint(st, x.val, sb, depth+1)
		}
	case *PtrV:
		if x.IsNil() {
			sb.WriteString("pnil")
		} else {
			e.fingerprint(st, e.loadPtr(st, x), sb, depth+1)
		}
	default:
		fmt.Fprintf(sb, "%T%p", v, v)
	}
}

// json.Marshal: an opaque byte string that is a function of the value's content
func inJSONMarshal(e *Engine, st *State, fn *ssa.Function, args []Value, site ssa.Instruction) []Outcome {
	var sb strings.Builder
	e.fingerprint(st, args[0], &sb, 0)
	key := sb.String()
	name, ok := e.jsonNames[key]
	if !ok {
		name = e.tm.FreshName("json")
		e.jsonNames[key] = name
		var deps []*Term
		e.collectDeps(args[0], &deps, st, 0)
		e.fmtDeps[name] = deps
	}
	l := e.tm.Var(name+"_len", 64)
	max := e.bound("json_len", 64)
	st.assume(e.tm.Ule(l, e.c64(uint64(max))))
	st.assume(e.tm.Ule(e.c64(2), l))
	o := e.newObject(name, types.Typ[types.Uint8])
	st.mem.set(o, ArrExpr(e.arrSym(name)))
	return one(st, &TupleV{[]Value{&SliceV{obj: o, off: e.c64(0), len: l, cap: l, bytes: true, max: max}, &IfaceV{}}})
}

// ---------- bcrypt

func vpBcryptPair(e *Engine, st *State, fn *ssa.Function, a []Value, s ssa.Instruction) []Outcome {
	h, ok1 := argString(a[0])
	p, ok2 := argString(a[1])
	if !ok1 || !ok2 {
		panic(unsupported("vpBcryptPair needs concrete strings"))
	}
	e.bcryptPairs[h] = p
	return one(st, nil)
}

// CompareHashAndPassword(hash, password): exact for registered (hash -> plaintext) pairs; any
// other hash never verifies.
func inBcryptCompare(e *Engine, st *State, fn *ssa.Function, args []Value, site ssa.Instruction) []Outcome {
	mismatch := e.newOpaqueError("crypto/bcrypt: hashedPassword is not the hash of the given password", nil, nil, nil)
	hs, ok := args[0].(*SliceV)
	if !ok || hs.obj == nil {
		return one(st, mismatch)
	}
	hb, ok := e.argBytes(st, hs)
	if !ok {
		panic(unsupported("bcrypt.CompareHashAndPassword with a symbolic hash"))
	}
	plain, known := e.bcryptPairs[string(hb)]
	if !known {
		e.note("bcrypt compare against an unregistered hash: modelled as never verifying")
		return one(st, mismatch)
	}
	pw := e.sliceAsStr(st, args[1].(*SliceV))
	eq := e.strEq(pw, e.mkStr(plain))
	return one(st, e.mergeValues(eq, &IfaceV{}, mismatch))
}

// ---------- leak check (C18): does the rendered value depend on the secret bytes?

func (e *Engine) leafIDs(t *Term, out map[int]bool, seen map[int]bool) {
	if seen[t.id] {
		return
	}
	seen[t.id] = true
	if len(t.args) == 0 || t.op == OpSelect {
		out[t.id] = true
	}
	for _, a := range t.args {
		e.leafIDs(a, out, seen)
	}
}

func vpLeaks(e *Engine, st *State, fn *ssa.Function, a []Value, s ssa.Instruction) []Outcome {
	secret, ok := a[1].(*StrV)
	if !ok {
		return one(st, e.tm.False)
	}
	if _, conc := concreteString(secret); conc {
		return one(st, e.tm.False) // constant secrets carry no label
	}
	want := map[int]bool{}
	seen := map[int]bool{}
	var sdeps []*Term
	e.collectDeps(secret, &sdeps, st, 0)
	for _, d := range sdeps {
		if d == secret.len {
			continue // only the content is labelled, not the length
		}
		e.leafIDs(d, want, seen)
	}
	var deps []*Term
	e.collectDeps(a[0], &deps, st, 0)
	// opaque formatted strings carry the deps of what they were built from
	var expand func(v Value)
	expand = func(v Value) {
		switch x := v.(type) {
		case *IfaceV:
			if x.typ != nil {
				expand(x.val)
			}
		case *StrV:
			if as, ok := x.arr.(*ArrSym); ok {
				deps = append(deps, e.fmtDeps[as.name]...)
			}
		}
	}
	expand(a[0])
	// bytes copied out of an opaque formatted string (re-encoded, re-decoded, sliced) still
	// stand for everything that string was built from
	doneFmt := map[string]bool{}
	for changed := true; changed; {
		changed = false
		seenT := map[int]bool{}
		var walk func(t *Term)
		walk = func(t *Term) {
			if seenT[t.id] {
				return
			}
			seenT[t.id] = true
			if t.op == OpSelect && !doneFmt[t.name] {
				if fd, ok := e.fmtDeps[t.name]; ok {
					doneFmt[t.name] = true
					deps = append(deps, fd...)
					changed = true
				}
			}
			for _, x := range t.args {
				walk(x)
			}
		}
		for _, d := range append([]*Term(nil), deps...) {
			walk(d)
		}
	}
	have := map[int]bool{}
	seen2 := map[int]bool{}
	for _, d := range deps {
		e.leafIDs(d, have, seen2)
	}
	ids := make([]int, 0, len(want))
	for id := range want {
		ids = append(ids, id)
	}
	sort.Ints(ids)
	syntactic := false
	for _, id := range ids {
		if have[id] {
			syntactic = true
			break
		}
	}
	if os.Getenv("VP_LEAKDBG") != "" {
		fmt.Printf("vpLeaks: value=%s deps=%d want=%d syntactic=%v\n", describe(a[0]), len(deps), len(want), syntactic)
	}
	if !syntactic {
		return one(st, e.tm.False)
	}
	// semantic refinement (non-interference): are there two secrets of the same length, on this
	// very path, for which the emitted value differs?
	names := map[string]bool{}
	for _, d := range sdeps {
		var walk func(t *Term)
		seenT := map[int]bool{}
		walk = func(t *Term) {
			if seenT[t.id] {
				return
			}
			seenT[t.id] = true
			if t.op == OpSelect {
				names[t.name] = true
			}
			for _, a := range t.args {
				walk(a)
			}
		}
		walk(d)
	}
	if len(names) == 0 {
		return one(st, e.tm.True)
	}
	tm := e.tm
	memo := map[*Term]*Term{}
	var diffs []*Term
	for _, d := range deps {
		d2 := tm.RenameArrays(d, names, "_alt", memo)
		if d2 != d {
			diffs = append(diffs, tm.Ne(d, d2))
		}
	}
	if len(diffs) == 0 {
		if os.Getenv("VP_LEAKDBG") != "" {
			fmt.Printf("vpLeaks: no diffs names=%v\n", names)
		}
		return one(st, e.tm.False)
	}
	e.sync(st.pc)
	e.solver.Push()
	for p := st.pc; p != nil; p = p.parent {
		p2 := tm.RenameArrays(p.t, names, "_alt", memo)
		if p2 != p.t {
			e.solver.Assert(p2)
		}
	}
	e.solver.Assert(tm.Or(diffs...))
	r := e.solver.Check()
	e.solver.Pop()
	if r == Unknown {
		e.rep.Unknowns++
	}
	if os.Getenv("VP_LEAKDBG") != "" {
		fmt.Printf("vpLeaks: semantic diffs=%d names=%d result=%v\n", len(diffs), len(names), r)
	}
	return one(st, e.tm.Bool(r != Unsat))
}

// vpPrefer(cond): a soft constraint used only when a model is extracted (witness shaping)
func vpPrefer(e *Engine, st *State, fn *ssa.Function, a []Value, s ssa.Instruction) []Outcome {
	c := a[0].(*Term)
	if !c.IsConst() {
		prefs, _ := st.ghost["vp.prefer"].(*TupleV)
		nv := &TupleV{}
		if prefs != nil {
			nv.v = append(nv.v, prefs.v...)
		}
		nv.v = append(nv.v, c)
		st.ghost["vp.prefer"] = nv
	}
	return one(st, nil)
}

// arrSym returns the canonical array symbol object for a name.
func (e *Engine) arrSym(name string) *ArrSym {
	if a, ok := e.arrSyms[name]; ok {
		return a
	}
	a := &ArrSym{name}
	e.arrSyms[name] = a
	return a
}

// ---------- exact models of strings helpers for ASCII subjects (bounded length)

func init() {
	intrinsics["strings.IndexAny"] = inStringsIndexAny
	intrinsics["strings.TrimSpace"] = inStringsTrimSpace
	intrinsics["strings.ToLower"] = inStringsToLower
	intrinsics["strings.HasPrefix"] = inStringsHasPrefix
	intrinsics["strings.HasSuffix"] = inStringsHasSuffix
	intrinsics["strings.Split"] = inStringsSplit
	intrinsics["strings.Count"] = inStringsCount
	intrinsics["strings.ToUpper"] = inStringsToUpper
	intrinsics["bytes.Contains"] = inBytesContains
}

func (e *Engine) strByte(s *StrV, i int) *Term {
	return e.arrRead(s.arr, e.tm.Add(s.off, e.c64(uint64(i))))
}

func inStringsIndexAny(e *Engine, st *State, fn *ssa.Function, args []Value, site ssa.Instruction) []Outcome {
	tm := e.tm
	s := args[0].(*StrV)
	chars, ok := argString(args[1])
	if !ok {
		panic(unsupported("strings.IndexAny with symbolic character set"))
	}
	for _, c := range []byte(chars) {
		if c >= 0x80 {
			panic(unsupported("strings.IndexAny with non-ASCII set"))
		}
	}
	n := e.strBoundOrFail(s)
	res := tm.BV(^uint64(0), 64)
	for i := n - 1; i >= 0; i-- {
		b := e.strByte(s, i)
		var any []*Term
		for _, c := range []byte(chars) {
			any = append(any, tm.Eq(b, tm.BV(uint64(c), 8)))
		}
		hit := tm.And(tm.Ult(e.c64(uint64(i)), s.len), tm.Or(any...))
		res = tm.Ite(hit, e.c64(uint64(i)), res)
	}
	return one(st, res)
}

func (e *Engine) isSpaceByte(b *Term) *Term {
	tm := e.tm
	return tm.Or(tm.Eq(b, tm.BV(' ', 8)), tm.And(tm.Ule(tm.BV('\t', 8), b), tm.Ule(b, tm.BV('\r', 8))))
}

func inStringsTrimSpace(e *Engine, st *State, fn *ssa.Function, args []Value, site ssa.Instruction) []Outcome {
	tm := e.tm
	s := args[0].(*StrV)
	if cs, ok := concreteString(s); ok {
		return one(st, e.mkStr(strings.TrimSpace(cs)))
	}
	n := e.strBoundOrFail(s)
	e.note("strings.TrimSpace modelled for ASCII subjects")
	// lead: index of the first non-space byte, or len
	lead := s.len
	for i := n - 1; i >= 0; i-- {
		ci := e.c64(uint64(i))
		nonSpace := tm.And(tm.Ult(ci, s.len), tm.Not(e.isSpaceByte(e.strByte(s, i))))
		lead = tm.Ite(nonSpace, ci, lead)
	}
	// end: one past the last non-space byte, or lead
	end := lead
	for i := 0; i < n; i++ {
		ci := e.c64(uint64(i))
		nonSpace := tm.And(tm.Ult(ci, s.len), tm.Not(e.isSpaceByte(e.strByte(s, i))))
		end = tm.Ite(nonSpace, e.c64(uint64(i+1)), end)
	}
	mk := func(st2 *State, l, en *Term) []Outcome {
		return one(st2, &StrV{arr: s.arr, off: tm.Add(s.off, l), len: tm.Sub(en, l), max: s.max})
	}
	if _, ok := s.len.ConstVal(); !ok {
		return mk(st, lead, end)
	}
	// concrete length: case split on the trimmed bounds so that offsets stay concrete
	if lead.IsConst() && end.IsConst() {
		return mk(st, lead, end)
	}
	e.hints[lead] = [2]uint64{0, uint64(n)}
	e.hints[end] = [2]uint64{0, uint64(n)}
	return e.forkOnLen(st, lead, n, func(st2 *State, l uint64) []Outcome {
		return e.forkOnLen(st2, end, n, func(st3 *State, en uint64) []Outcome {
			return mk(st3, e.c64(l), e.c64(en))
		})
	})
}

func inStringsToLower(e *Engine, st *State, fn *ssa.Function, args []Value, site ssa.Instruction) []Outcome {
	tm := e.tm
	s := args[0].(*StrV)
	if cs, ok := concreteString(s); ok {
		return one(st, e.mkStr(strings.ToLower(cs)))
	}
	n := e.strBoundOrFail(s)
	e.note("strings.ToLower modelled for ASCII subjects")
	v := make([]*Term, n)
	for i := range v {
		b := e.strByte(s, i)
		up := tm.And(tm.Ule(tm.BV('A', 8), b), tm.Ule(b, tm.BV('Z', 8)))
		v[i] = tm.Ite(up, tm.Add(b, tm.BV(32, 8)), b)
	}
	return one(st, &StrV{arr: &ArrVec{v}, off: e.c64(0), len: s.len, max: s.max})
}

func (e *Engine) hasAffix(s, p *StrV, suffix bool) *Term {
	tm := e.tm
	m, ok := p.len.ConstVal()
	if !ok {
		panic(unsupported("HasPrefix/HasSuffix with symbolic affix length"))
	}
	conj := []*Term{tm.Ule(p.len, s.len)}
	for j := uint64(0); j < m; j++ {
		var idx *Term
		if suffix {
			idx = tm.Add(tm.Sub(s.len, p.len), e.c64(j))
		} else {
			idx = e.c64(j)
		}
		conj = append(conj, tm.Eq(e.arrRead(s.arr, tm.Add(s.off, idx)), e.arrRead(p.arr, tm.Add(p.off, e.c64(j)))))
	}
	return tm.And(conj...)
}

func inStringsHasPrefix(e *Engine, st *State, fn *ssa.Function, args []Value, site ssa.Instruction) []Outcome {
	return one(st, e.hasAffix(args[0].(*StrV), args[1].(*StrV), false))
}

func inStringsHasSuffix(e *Engine, st *State, fn *ssa.Function, args []Value, site ssa.Instruction) []Outcome {
	return one(st, e.hasAffix(args[0].(*StrV), args[1].(*StrV), true))
}

func inStringsSplit(e *Engine, st *State, fn *ssa.Function, args []Value, site ssa.Instruction) []Outcome {
	s, ok1 := argString(args[0])
	sep, ok2 := argString(args[1])
	if !ok1 || !ok2 {
		panic(unsupported("strings.Split on symbolic strings"))
	}
	return one(st, e.importValue(st, reflect.ValueOf(strings.Split(s, sep)), fn.Signature.Results().At(0).Type()))
}

func inStringsCount(e *Engine, st *State, fn *ssa.Function, args []Value, site ssa.Instruction) []Outcome {
	s, ok1 := argString(args[0])
	sep, ok2 := argString(args[1])
	if !ok1 || !ok2 {
		panic(unsupported("strings.Count on symbolic strings"))
	}
	return one(st, e.c64(uint64(strings.Count(s, sep))))
}

func inStringsToUpper(e *Engine, st *State, fn *ssa.Function, args []Value, site ssa.Instruction) []Outcome {
	tm := e.tm
	s := args[0].(*StrV)
	if cs, ok := concreteString(s); ok {
		return one(st, e.mkStr(strings.ToUpper(cs)))
	}
	n := e.strBoundOrFail(s)
	v := make([]*Term, n)
	for i := range v {
		b := e.strByte(s, i)
		lo := tm.And(tm.Ule(tm.BV('a', 8), b), tm.Ule(b, tm.BV('z', 8)))
		v[i] = tm.Ite(lo, tm.Sub(b, tm.BV(32, 8)), b)
	}
	return one(st, &StrV{arr: &ArrVec{v}, off: e.c64(0), len: s.len, max: s.max})
}

func inBytesContains(e *Engine, st *State, fn *ssa.Function, args []Value, site ssa.Instruction) []Outcome {
	a := e.sliceAsStr(st, args[0].(*SliceV))
	b := e.sliceAsStr(st, args[1].(*SliceV))
	idx := e.strIndex(a, b)
	return one(st, e.tm.Ne(idx, e.tm.BV(^uint64(0), 64)))
}
