package main

import (
	"flag"
	"fmt"
	"os"
	"runtime"
	"runtime/pprof"
	"sort"
	"strconv"
	"strings"
	"sync"
	"time"

	"golang.org/x/tools/go/ssa"
)

func envOr(k, d string) string {
	if v := os.Getenv(k); v != "" {
		return v
	}
	return d
}

type job struct {
	fn      *ssa.Function
	caseIdx int
}

// harnessJobs expands harness functions: `func vpH_X__N(c int)` runs for c = 0..N-1.
func harnessJobs(fns []*ssa.Function) []job {
	var jobs []job
	for _, fn := range fns {
		if len(fn.Params) == 1 {
			n := 1
			if i := strings.LastIndex(fn.Name(), "__"); i >= 0 {
				if v, err := strconv.Atoi(fn.Name()[i+2:]); err == nil {
					n = v
				}
			}
			for c := 0; c < n; c++ {
				jobs = append(jobs, job{fn, c})
			}
		} else {
			jobs = append(jobs, job{fn, -1})
		}
	}
	return jobs
}

func runJobs(ld *Loaded, jobs []job, cfg Config, workers int) []*HarnessReport {
	reps := make([]*HarnessReport, len(jobs))
	var wg sync.WaitGroup
	ch := make(chan int)
	for w := 0; w < workers; w++ {
		wg.Add(1)
		go func() {
			defer wg.Done()
			for i := range ch {
				c := cfg
				c.Bounds = map[string]int{}
				for k, v := range cfg.Bounds {
					c.Bounds[k] = v
				}
				e, err := NewEngine(ld, c)
				if err != nil {
					reps[i] = &HarnessReport{Name: jobs[i].fn.Name(), Unsupported: map[string]int{"solver start: " + err.Error(): 1}}
					continue
				}
				reps[i] = e.RunHarness(jobs[i].fn, jobs[i].caseIdx)
				e.Close()
			}
		}()
	}
	for i := range jobs {
		ch <- i
	}
	close(ch)
	wg.Wait()
	return reps
}

func parseBounds(s string) map[string]int {
	m := map[string]int{}
	for _, kv := range strings.Split(s, ",") {
		if kv == "" {
			continue
		}
		p := strings.SplitN(kv, "=", 2)
		if len(p) == 2 {
			v, _ := strconv.Atoi(p[1])
			m[p[0]] = v
		}
	}
	return m
}

func defaultConfig(tier string) Config {
	cfg := Config{Tier: tier, SolverName: "z3-new", TimeoutMs: 10000, MaxLoop: 400, MaxSteps: 400000, MaxPaths: 200000, MaxDepth: 60,
		DefaultStrBound: 32, MaxViolPerID: 2, Bounds: map[string]int{}}
	if tier == "thorough" {
		cfg.TimeoutMs = 60000
		cfg.MaxSteps = 4000000
	}
	return cfg
}

func printReport(r *HarnessReport, verbose bool) {
	fmt.Printf("== %s: paths=%d(+%d infeasible) steps=%d obligations=%d discharged=%d violations=%d unknown=%d unwind=%d merged=%d wall=%.1fs solver=%.1fs send=%.1fs bytes=%dK getvalue=%d queries=%d\n",
		r.Name, r.Paths, r.InfeasiblePaths, r.Steps, r.Obligations, r.Discharged, len(r.Violations), r.Unknowns, r.UnwindHits, r.Merged, r.Wall.Seconds(), r.SolverStats.Time.Seconds(), r.SolverStats.SendTime.Seconds(), r.SolverStats.Bytes/1024, r.SolverStats.GetValueCalls, r.SolverStats.Queries)
	for _, k := range sortedKeys(r.Unsupported) {
		fmt.Printf("   UNSUPPORTED x%d: %s\n", r.Unsupported[k], k)
	}
	for _, v := range r.Violations {
		fmt.Printf("   CANDIDATE %s %s at %s\n", v.Kind, v.ID, v.Where)
	}
	if verbose {
		for _, k := range sortedKeys(r.Reach) {
			fmt.Printf("   reach %s x%d\n", k, r.Reach[k])
		}
		for _, k := range sortedKeys(r.Notes) {
			fmt.Printf("   note x%d: %s\n", r.Notes[k], k)
		}
		for _, k := range sortedKeys(r.Intrinsics) {
			fmt.Printf("   intrinsic x%d: %s\n", r.Intrinsics[k], k)
		}
	}
}

func main() {
	if len(os.Args) < 2 {
		fmt.Println("usage: gosym run|check ...")
		os.Exit(2)
	}
	switch os.Args[1] {
	case "run":
		cmdRun(os.Args[2:])
	case "check":
		os.Exit(cmdCheck(os.Args[2:]))
	case "replay":
		os.Exit(cmdReplay(os.Args[2:]))
	default:
		fmt.Println("unknown command")
		os.Exit(2)
	}
}

func cmdRun(args []string) {
	startMemWatchdog()
	fs := flag.NewFlagSet("run", flag.ExitOnError)
	prefix := fs.String("prefix", "vpH_", "harness name prefix")
	tier := fs.String("tier", "quick", "quick|thorough")
	bounds := fs.String("bounds", "", "k=v,...")
	workers := fs.Int("workers", runtime.NumCPU(), "parallel workers")
	trace := fs.Bool("trace", false, "trace instructions")
	nomerge := fs.Bool("nomerge", false, "disable call merging")
	eager := fs.Bool("eager", false, "decide feasibility at every branch")
	noprune := fs.Bool("noprune", false, "do not prune infeasible outcomes before merging")
	verbose := fs.Bool("v", false, "verbose")
	slog := fs.String("solverlog", "", "write SMT to file")
	solver := fs.String("solver", "z3-new", "z3|z3-new|cvc5")
	replay := fs.Bool("replay", false, "replay candidates natively")
	prof := fs.String("cpuprofile", "", "write cpu profile")
	onlyCase := fs.Int("case", -1, "run only this case index of parameterised harnesses")
	ownerF := fs.String("owner", "", "property id: assertions of other properties are observed only (as in check mode)")
	deadline := fs.Int("deadline", 0, "stop exploring after this many seconds")
	fs.Parse(args)
	if *prof != "" {
		f, _ := os.Create(*prof)
		pprof.StartCPUProfile(f)
		defer pprof.StopCPUProfile()
	}
	t0 := time.Now()
	ld, err := Load(envOr("VP_REPO", "/repo"), envOr("VP_HARNESS", "/verif/harness"))
	if err != nil {
		fmt.Println("load error:", err)
		os.Exit(3)
	}
	fmt.Printf("loaded in %.1fs\n", time.Since(t0).Seconds())
	cfg := defaultConfig(*tier)
	cfg.Owner = *ownerF
	cfg.Trace = *trace
	cfg.NoMerge = *nomerge
	cfg.EagerFeas = *eager
	if *deadline > 0 {
		cfg.Deadline = time.Now().Add(time.Duration(*deadline) * time.Second)
	}
	cfg.NoPrune = *noprune
	cfg.SolverLog = *slog
	cfg.SolverName = *solver
	for k, v := range parseBounds(*bounds) {
		cfg.Bounds[k] = v
	}
	fns := ld.Harnesses(*prefix)
	jobs := harnessJobs(fns)
	if *onlyCase >= 0 {
		var sel []job
		for _, j := range jobs {
			if j.caseIdx == *onlyCase {
				sel = append(sel, j)
			}
		}
		jobs = sel
	}
	if *trace || *slog != "" {
		*workers = 1
	}
	reps := runJobs(ld, jobs, cfg, *workers)
	sort.Slice(reps, func(i, j int) bool { return reps[i].Name < reps[j].Name })
	for _, r := range reps {
		printReport(r, *verbose)
	}
	if *replay {
		res := replayAll(ld, reps, cfg)
		for _, r := range res {
			fmt.Printf("   REPLAY %s %s -> %s %s\n", r.Harness, r.ID, r.Status, r.Detail)
		}
	}
	fmt.Printf("total %.1fs\n", time.Since(t0).Seconds())
}
