package main

import (
	"golang.org/x/tools/go/ssa"
)

// Mem is a layered persistent map object -> value.
type Mem struct {
	m      map[*Object]Value
	parent *Mem
	depth  int
}

func newMem() *Mem { return &Mem{m: map[*Object]Value{}} }

func (m *Mem) get(o *Object) (Value, bool) {
	for l := m; l != nil; l = l.parent {
		if v, ok := l.m[o]; ok {
			return v, true
		}
	}
	return nil, false
}

func (m *Mem) set(o *Object, v Value) { m.m[o] = v }

func (m *Mem) child() *Mem {
	if m.depth >= 24 {
		flat := map[*Object]Value{}
		var layers []*Mem
		for l := m; l != nil; l = l.parent {
			layers = append(layers, l)
		}
		for i := len(layers) - 1; i >= 0; i-- {
			for k, v := range layers[i].m {
				flat[k] = v
			}
		}
		return &Mem{m: map[*Object]Value{}, parent: &Mem{m: flat}, depth: 1}
	}
	return &Mem{m: map[*Object]Value{}, parent: m, depth: m.depth + 1}
}

// flatten returns all bindings (for merging).
func (m *Mem) flatten() map[*Object]Value {
	flat := map[*Object]Value{}
	var layers []*Mem
	for l := m; l != nil; l = l.parent {
		layers = append(layers, l)
	}
	for i := len(layers) - 1; i >= 0; i-- {
		for k, v := range layers[i].m {
			flat[k] = v
		}
	}
	return flat
}

// PC is a persistent list of path-condition conjuncts.
type PC struct {
	parent *PC
	t      *Term
	n      int
}

func (p *PC) push(t *Term) *PC {
	n := 1
	if p != nil {
		n = p.n + 1
	}
	return &PC{parent: p, t: t, n: n}
}

func (p *PC) depth() int {
	if p == nil {
		return 0
	}
	return p.n
}

// TapeEntry records one nondeterministic input of the harness, in program order.
type TapeEntry struct {
	Kind string // u8 u16 u32 u64 bool int bytes str
	Term *Term  // scalar value or length (bytes/str)
	Arr  string // array symbol for bytes/str
	Max  int
	Lo   int64
	Hi   int64
	Cap  *Term // bytes with extra capacity
}

type TapeList struct {
	parent *TapeList
	e      TapeEntry
	n      int
}

func (t *TapeList) push(e TapeEntry) *TapeList {
	n := 1
	if t != nil {
		n = t.n + 1
	}
	return &TapeList{parent: t, e: e, n: n}
}

func (t *TapeList) slice() []TapeEntry {
	if t == nil {
		return nil
	}
	out := make([]TapeEntry, t.n)
	for l := t; l != nil; l = l.parent {
		out[l.n-1] = l.e
	}
	return out
}

// ObsEntry is one observation (vpObserve / assertion outcome / reach marker) on a path.
type ObsEntry struct {
	Tag   string
	Kind  string // int bool bytes reach assert
	Term  *Term
	Bytes *StrV
}

type ObsList struct {
	parent *ObsList
	e      ObsEntry
	n      int
}

func (t *ObsList) push(e ObsEntry) *ObsList {
	n := 1
	if t != nil {
		n = t.n + 1
	}
	return &ObsList{parent: t, e: e, n: n}
}

func (t *ObsList) slice() []ObsEntry {
	if t == nil {
		return nil
	}
	out := make([]ObsEntry, t.n)
	for l := t; l != nil; l = l.parent {
		out[l.n-1] = l.e
	}
	return out
}

// State is the per-path mutable state (cloned at forks).
type State struct {
	mem       *Mem
	pc        *PC
	tape      *TapeList
	obs       *ObsList
	steps     int
	pending   []pendingGo // goroutines not yet run (lazy spawn)
	ghost     map[string]Value
	unchecked int // symbolic forward branches taken since the last feasibility check
	splits    int // number of deliberate case splits (concretisations) on this path
}

type pendingGo struct {
	fn   *FuncV
	args []Value
}

func (s *State) clone() *State {
	c := *s
	s.mem = s.mem.child()
	c.mem = s.mem.parent.child()
	if s.ghost != nil {
		g := make(map[string]Value, len(s.ghost))
		for k, v := range s.ghost {
			g[k] = v
		}
		c.ghost = g
	}
	if len(s.pending) > 0 {
		c.pending = append([]pendingGo(nil), s.pending...)
	}
	return &c
}

func (s *State) assume(t *Term) {
	if t.IsTrue() {
		return
	}
	s.pc = s.pc.push(t)
}

type deferred struct {
	fn   Value // *FuncV or builtin
	args []Value
	call *ssa.CallCommon
}

type Frame struct {
	fn      *ssa.Function
	info    *fnInfo
	locals  []Value
	block   *ssa.BasicBlock
	prev    *ssa.BasicBlock
	ip      int
	defers  []deferred
	loops   map[int]int // back-edge counts per block index
	ret     Value
	depth   int
	running bool // executing deferred calls
	symIter bool // the last loop-header decision was symbolic
}

func (f *Frame) clone() *Frame {
	c := *f
	c.locals = append([]Value(nil), f.locals...)
	if len(f.defers) > 0 {
		c.defers = append([]deferred(nil), f.defers...)
	}
	if f.loops != nil {
		c.loops = make(map[int]int, len(f.loops))
		for k, v := range f.loops {
			c.loops[k] = v
		}
	}
	return &c
}

// Outcome is one way a call can finish.
type Outcome struct {
	st  *State
	ret Value
}

// fnInfo caches per-function numbering of SSA values.
type fnInfo struct {
	idx map[ssa.Value]int
	n   int
}
