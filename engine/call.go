package main

// Calls: static, closure, interface dispatch, builtins, outcome merging, goroutine spawn.

import (
	"fmt"
	"go/types"
	"strings"

	"golang.org/x/tools/go/ssa"
)

func (e *Engine) prepareCall(fr *Frame, st *State, c *ssa.CallCommon) deferred {
	d := deferred{call: c}
	if c.IsInvoke() {
		d.fn = e.resolved(fr, c.Value)
	} else {
		switch c.Value.(type) {
		case *ssa.Function, *ssa.Builtin:
			d.fn = e.get(fr, c.Value)
		default:
			d.fn = e.resolved(fr, c.Value)
		}
	}
	strict := false
	if sc := c.StaticCallee(); sc != nil && e.findIntrinsic(sc) != nil {
		strict = true
	}
	if _, ok := c.Value.(*ssa.Builtin); ok {
		strict = true
	}
	for _, a := range c.Args {
		if strict {
			// intrinsics and builtins want concrete alternatives: fork on guarded unions
			if _, isLocal := fr.info.idx[a]; isLocal {
				d.args = append(d.args, e.resolved(fr, a))
				continue
			}
		}
		d.args = append(d.args, e.get(fr, a))
	}
	return d
}

func (e *Engine) callInstr(fr *Frame, st *State, in ssa.Instruction, c *ssa.CallCommon, dest ssa.Value) stepResult {
	d := e.prepareCall(fr, st, c)
	return e.invokePrepared(fr, st, d, dest, in)
}

// invokePrepared runs a prepared call and turns its outcomes into continuations of fr.
func (e *Engine) invokePrepared(fr *Frame, st *State, d deferred, dest ssa.Value, site ssa.Instruction) stepResult {
	outs := e.dispatch(fr, st, d, site)
	_, isRunDefers := site.(*ssa.RunDefers)
	if len(outs) == 0 {
		return stepResult{kind: stepEnd}
	}
	fi := fr.info
	bs := make([]branch, len(outs))
	for i, o := range outs {
		o := o
		bs[i] = branch{st: o.st, apply: func(f *Frame, s *State) {
			if dest != nil {
				if di, ok := fi.idx[dest]; ok {
					f.locals[di] = o.ret
				}
			}
			if !isRunDefers {
				f.ip++
			}
		}}
	}
	return stepResult{kind: stepBranch, branches: bs}
}

func (e *Engine) dispatch(fr *Frame, st *State, d deferred, site ssa.Instruction) []Outcome {
	tm := e.tm
	c := d.call
	if c.IsInvoke() {
		iv, ok := d.fn.(*IfaceV)
		if !ok {
			panic(unsupported(fmt.Sprintf("invoke on %T", d.fn)))
		}
		if iv.typ == nil {
			e.panicObligation(st, tm.False, "nil-interface-invoke:"+c.Method.Name(), site)
			panic(pathEnd{"nil invoke"})
		}
		if op, ok := iv.val.(*OpaqueV); ok {
			e.forceArgs(fr, c, d.args)
			return e.opaqueMethod(st, iv, op, c.Method.Name(), d.args, site)
		}
		fn := e.prog.LookupMethod(iv.typ, c.Method.Pkg(), c.Method.Name())
		if fn == nil {
			panic(unsupported("no method " + c.Method.Name() + " on " + typeName(iv.typ)))
		}
		args := append([]Value{iv.val}, d.args...)
		return e.callFn(st, fn, args, nil, site)
	}
	fv, ok := d.fn.(*FuncV)
	if !ok {
		panic(unsupported(fmt.Sprintf("call of %T", d.fn)))
	}
	if fv.fn != nil && e.findIntrinsic(fv.fn) != nil {
		e.forceArgs(fr, c, d.args)
	}
	if fv.fn == nil {
		if strings.HasPrefix(fv.name, "builtin:") {
			return e.builtin(fr, st, fv.name[8:], d.args, c, site)
		}
		if fv.name != "" {
			return e.namedIntrinsic(st, fv.name, d.args, fv.bind, site)
		}
		e.panicObligation(st, tm.False, "nil-func-call", site)
		panic(pathEnd{"nil func"})
	}
	return e.callFn(st, fv.fn, d.args, fv.bind, site)
}

// forceArgs forks on guarded-union arguments (intrinsics want concrete alternatives).
func (e *Engine) forceArgs(fr *Frame, c *ssa.CallCommon, args []Value) {
	for i, a := range args {
		if ch, ok := a.(*ChoiceV); ok && i < len(c.Args) {
			if _, isLocal := fr.info.idx[c.Args[i]]; isLocal {
				panic(forkReq{target: c.Args[i], alts: ch.alts})
			}
			panic(unsupported("guarded-union argument that is not a local"))
		}
	}
}

func (e *Engine) inHarnessFile(fn *ssa.Function) bool {
	for f := fn; f != nil; f = f.Parent() {
		if f.Pos().IsValid() {
			return strings.Contains(e.prog.Fset.Position(f.Pos()).Filename, "zz_vp_")
		}
		if f.Synthetic != "" && f.Object() != nil && f.Object().Pos().IsValid() {
			return strings.Contains(e.prog.Fset.Position(f.Object().Pos()).Filename, "zz_vp_")
		}
	}
	return false
}

func (e *Engine) mergeable(fn *ssa.Function) bool {
	if e.cfg.NoMerge || e.noMerge[fn] {
		return false
	}
	if strings.HasPrefix(fn.Name(), "vpH_") {
		return false
	}
	return true
}

func (e *Engine) callFn(st *State, fn *ssa.Function, args []Value, bind []Value, site ssa.Instruction) []Outcome {
	if e.stop.Load() || memStop.Load() {
		panic(pathEnd{"deadline"})
	}
	if h := e.findIntrinsic(fn); h != nil {
		e.rep.Intrinsics[fn.String()]++
		return h(e, st, fn, args, site)
	}
	if fn.Blocks == nil || !e.allowedBody(fn) {
		if e.lenient {
			e.note("lenient (package init): external call skipped: " + fn.String())
			return one(st, resultZero(e, fn))
		}
		if fn.Blocks == nil {
			panic(unsupported("function without body: " + fn.String()))
		}
		panic(unsupported("call into unmodelled code: " + fn.String()))
	}
	if e.depth >= e.cfg.MaxDepth {
		panic(unsupported("call depth limit at " + fn.String()))
	}
	e.rep.Funcs[fn.String()] = true
	mergeOK := e.mergeable(fn)
	entryPC, entryTape, entryObs := st.pc, st.tape, st.obs
	nPending := len(st.pending)
	entrySplits := st.splits
	if mergeOK {
		st.mem = st.mem.child()
	}
	mark := st.mem
	e.depth++
	fr := e.newFrame(fn, args, bind)
	outs := e.runFrame(fr, st)
	e.depth--
	why := ""
	if !mergeOK {
		why = "not mergeable"
	}
	for _, o := range outs {
		if o.st.splits != entrySplits {
			if mergeOK {
				why = "case split inside"
			}
			mergeOK = false
		}
	}
	if forkDebug && len(outs) > 1 {
		defer func() {
			if why != "" {
				e.note(fmt.Sprintf("unmerged x%d (%s): %s", len(outs), why, fn.String()))
			}
		}()
	}
	if mergeOK && len(outs) > 1 && !e.cfg.NoPrune {
		// drop outcomes whose path condition is infeasible, so that merged values do not
		// carry dead alternatives
		live := outs[:0:0]
		for _, o := range outs {
			if o.st.pc == entryPC {
				live = append(live, o)
				continue
			}
			e.sync(o.st.pc)
			r := e.solver.Check()
			if r == Unknown {
				e.rep.Unknowns++
			}
			if r != Unsat {
				live = append(live, o)
			}
		}
		outs = live
	}
	if mergeOK && len(outs) > e.bound("merge_max", 24) {
		mergeOK = false // merging very many outcomes costs more than it saves
		why = "merge_max"
	}
	if mergeOK && len(outs) > 1 {
		e.mergeLoss = false
		e.lossyOK = e.bound("merge_lossy", 0) == 1
		if m, ok := e.mergeOutcomes(entryPC, entryTape, entryObs, nPending, mark, outs); ok && !e.mergeLoss {
			e.rep.Merged++
			return []Outcome{m}
		} else if !ok {
			why = "tape/obs/pending differ"
		} else {
			why = "merge loss"
		}
	}
	return outs
}

func (e *Engine) condSince(pc, entry *PC) (*Term, bool) {
	var cs []*Term
	for p := pc; p != entry; p = p.parent {
		if p == nil {
			return nil, false
		}
		cs = append(cs, p.t)
	}
	return e.tm.And(cs...), true
}

func (e *Engine) mergeOutcomes(entryPC *PC, entryTape *TapeList, entryObs *ObsList, nPending int, mark *Mem, outs []Outcome) (Outcome, bool) {
	tm := e.tm
	conds := make([]*Term, len(outs))
	for i, o := range outs {
		if o.st.tape != entryTape || o.st.obs != entryObs || len(o.st.pending) != nPending {
			return Outcome{}, false
		}
		c, ok := e.condSince(o.st.pc, entryPC)
		if !ok {
			return Outcome{}, false
		}
		conds[i] = c
	}
	// memory deltas
	type delta map[*Object]Value
	deltas := make([]delta, len(outs))
	union := map[*Object]bool{}
	for i, o := range outs {
		d := delta{}
		found := false
		for l := o.st.mem; l != nil; l = l.parent {
			for k, v := range l.m {
				if _, seen := d[k]; !seen {
					d[k] = v
				}
			}
			if l == mark {
				found = true
				break
			}
		}
		if !found {
			// chain was flattened: fall back to a full comparison against the mark
			base := mark.flatten()
			d = delta{}
			for k, v := range o.st.mem.flatten() {
				if bv, ok := base[k]; !ok || bv != v {
					d[k] = v
				}
			}
		}
		deltas[i] = d
		for k := range d {
			union[k] = true
		}
	}
	n := len(outs)
	ns := *outs[n-1].st
	res := &ns
	res.pc = entryPC
	res.mem = mark.child()
	for obj := range union {
		var acc Value
		have := false
		for i := n - 1; i >= 0; i-- {
			v, ok := deltas[i][obj]
			if !ok {
				v, ok = mark.get(obj)
				if !ok {
					continue // object does not exist on this path
				}
			}
			if !have {
				acc, have = v, true
			} else {
				acc = e.mergeValues(conds[i], v, acc)
			}
		}
		if have {
			res.mem.set(obj, acc)
		}
	}
	// return value
	var ret Value
	for i := n - 1; i >= 0; i-- {
		if i == n-1 {
			ret = outs[i].ret
		} else if ret != nil || outs[i].ret != nil {
			ret = e.mergeValues(conds[i], outs[i].ret, ret)
		}
	}
	// ghost state
	if len(res.ghost) > 0 || true {
		g := map[string]Value{}
		keys := map[string]bool{}
		for _, o := range outs {
			for k := range o.st.ghost {
				keys[k] = true
			}
		}
		for k := range keys {
			var acc Value
			have := false
			for i := n - 1; i >= 0; i-- {
				v, ok := outs[i].st.ghost[k]
				if !ok {
					continue
				}
				if !have {
					acc, have = v, true
				} else {
					acc = e.mergeValues(conds[i], v, acc)
				}
			}
			g[k] = acc
		}
		res.ghost = g
	}
	maxSteps := 0
	for _, o := range outs {
		if o.st.steps > maxSteps {
			maxSteps = o.st.steps
		}
	}
	res.steps = maxSteps
	res.assume(tm.Or(conds...))
	return Outcome{st: res, ret: ret}, true
}

// spawn handles `go f(x)`: the child runs to completion at the spawn point (child-first
// schedule) unless the harness asked for lazy start, in which case it runs at the next
// WaitGroup.Wait or at the end of the harness.
func (e *Engine) spawn(fr *Frame, st *State, d deferred, site ssa.Instruction) stepResult {
	if lazy, ok := st.ghost["vp.lazygo"]; ok && lazy.(*Term).IsTrue() {
		fv, ok := d.fn.(*FuncV)
		if !ok {
			panic(unsupported("lazy go of non-function"))
		}
		st.pending = append(st.pending, pendingGo{fn: fv, args: d.args})
		fr.ip++
		return stepResult{kind: stepNext}
	}
	return e.invokePrepared(fr, st, d, nil, site)
}

func (e *Engine) runPending(st *State, site ssa.Instruction) []*State {
	states := []*State{st}
	for {
		progressed := false
		var next []*State
		for _, s := range states {
			if len(s.pending) == 0 {
				next = append(next, s)
				continue
			}
			progressed = true
			p := s.pending[0]
			s.pending = append([]pendingGo(nil), s.pending[1:]...)
			var outs []Outcome
			if p.fn.fn != nil {
				outs = e.callFn(s, p.fn.fn, p.args, p.fn.bind, site)
			}
			for _, o := range outs {
				next = append(next, o.st)
			}
		}
		states = next
		if !progressed {
			return states
		}
	}
}

// ---------- builtins ----------

func one(st *State, ret Value) []Outcome { return []Outcome{{st: st, ret: ret}} }

func (e *Engine) builtin(fr *Frame, st *State, name string, args []Value, c *ssa.CallCommon, site ssa.Instruction) []Outcome {
	tm := e.tm
	switch name {
	case "len", "cap":
		switch x := args[0].(type) {
		case *StrV:
			return one(st, x.len)
		case *SliceV:
			if name == "cap" {
				return one(st, x.cap)
			}
			return one(st, x.len)
		case *MapV:
			return one(st, e.mapLen(st, x))
		case *PtrV:
			at := c.Args[0].Type().Underlying().(*types.Pointer).Elem().Underlying().(*types.Array)
			return one(st, e.c64(uint64(at.Len())))
		case *BytesArrV:
			return one(st, e.c64(uint64(x.n)))
		case *CellsV:
			return one(st, e.c64(uint64(len(x.c))))
		case *ChanV:
			return one(st, e.c64(0))
		case *ChoiceV:
			var acc Value
			for i := len(x.alts) - 1; i >= 0; i-- {
				r := e.builtin(fr, st, name, []Value{x.alts[i].v}, c, site)[0].ret
				if acc == nil {
					acc = r
				} else {
					acc = e.mergeValues(x.alts[i].cond, r, acc)
				}
			}
			return one(st, acc)
		}
		panic(unsupported(fmt.Sprintf("len of %T", args[0])))
	case "append":
		return one(st, e.appendOp(st, args[0], args[1], site))
	case "copy":
		dst := e.mustResolveArg(fr, c.Args[0], args[0]).(*SliceV)
		var srcArr ArrExpr
		var srcOff, srcLen *Term
		switch s := e.mustResolveArg(fr, c.Args[1], args[1]).(type) {
		case *SliceV:
			if !s.bytes || !dst.bytes {
				return one(st, e.copyCells(st, dst, s))
			}
			if s.obj == nil {
				return one(st, e.c64(0))
			}
			cv, _ := st.mem.get(s.obj)
			srcArr, srcOff, srcLen = cv.(ArrExpr), s.off, s.len
		case *StrV:
			srcArr, srcOff, srcLen = s.arr, s.off, s.len
		}
		if dst.obj == nil {
			return one(st, e.c64(0))
		}
		n := tm.Ite(tm.Ult(dst.len, srcLen), dst.len, srcLen)
		dv, _ := st.mem.get(dst.obj)
		st.mem.set(dst.obj, e.arrCopy(dv.(ArrExpr), dst.off, srcArr, srcOff, n))
		return one(st, n)
	case "delete":
		m := e.mustResolveArg(fr, c.Args[0], args[0]).(*MapV)
		if m.obj != nil {
			e.mapDelete(st, m, args[1])
		}
		return one(st, nil)
	case "print", "println":
		return one(st, nil)
	case "min", "max":
		_, signed, _ := intWidth(c.Args[0].Type())
		acc := args[0].(*Term)
		for _, a := range args[1:] {
			b := a.(*Term)
			var lt *Term
			if signed {
				lt = tm.Slt(acc, b)
			} else {
				lt = tm.Ult(acc, b)
			}
			if name == "min" {
				acc = tm.Ite(lt, acc, b)
			} else {
				acc = tm.Ite(lt, b, acc)
			}
		}
		return one(st, acc)
	case "close":
		ch := e.mustResolveArg(fr, c.Args[0], args[0]).(*ChanV)
		e.chanClose(st, ch, site)
		return one(st, nil)
	case "recover":
		return one(st, &IfaceV{})
	case "ssa:wrapnilchk":
		p := e.mustResolveArg(fr, c.Args[0], args[0]).(*PtrV)
		if p.IsNil() {
			e.panicObligation(st, tm.False, "nil-deref", site)
			panic(pathEnd{"nil"})
		}
		return one(st, p)
	case "panic":
		e.panicObligation(st, tm.False, "explicit panic", site)
		panic(pathEnd{"panic"})
	}
	panic(unsupported("builtin " + name))
}

func (e *Engine) mustResolveArg(fr *Frame, sv ssa.Value, v Value) Value {
	if ch, ok := v.(*ChoiceV); ok {
		if _, isLocal := fr.info.idx[sv]; isLocal {
			panic(forkReq{target: sv, alts: ch.alts})
		}
		panic(unsupported("choice argument in builtin"))
	}
	return v
}

func (e *Engine) appendOp(st *State, sv, tv Value, site ssa.Instruction) Value {
	tm := e.tm
	s, ok := sv.(*SliceV)
	if !ok {
		panic(unsupported(fmt.Sprintf("append to %T", sv)))
	}
	if s.bytes {
		var tArr ArrExpr
		var tOff, tLen *Term
		tMax := -1
		switch t := tv.(type) {
		case *SliceV:
			if t.obj == nil {
				return s
			}
			cv, _ := st.mem.get(t.obj)
			tArr, tOff, tLen, tMax = cv.(ArrExpr), t.off, t.len, t.max
		case *StrV:
			tArr, tOff, tLen, tMax = t.arr, t.off, t.len, t.max
		default:
			panic(unsupported(fmt.Sprintf("append of %T", tv)))
		}
		if c, ok := tLen.ConstVal(); ok && c == 0 && s.obj != nil {
			return s
		}
		newLen := tm.Add(s.len, tLen)
		mx := -1
		if s.max >= 0 && tMax >= 0 {
			mx = s.max + tMax
		}
		fits := tm.Ule(newLen, s.cap)
		if s.obj == nil {
			fits = tm.False
		}
		inPlace := fits.IsTrue()
		if !fits.IsConst() {
			if e.mustHold(st, fits) {
				inPlace = true
			}
		}
		if inPlace {
			cv, _ := st.mem.get(s.obj)
			st.mem.set(s.obj, e.arrCopy(cv.(ArrExpr), tm.Add(s.off, s.len), tArr, tOff, tLen))
			return &SliceV{obj: s.obj, off: s.off, len: newLen, cap: s.cap, bytes: true, max: mx}
		}
		var old ArrExpr = emptyArr
		if s.obj != nil {
			cv, _ := st.mem.get(s.obj)
			old = cv.(ArrExpr)
			if !fits.IsFalse() && e.feasible(st, fits) {
				// capacity may suffice: the old backing array sees the write in that case
				st.mem.set(s.obj, e.arrIte(fits, e.arrCopy(old, tm.Add(s.off, s.len), tArr, tOff, tLen), old))
				e.note("append with input-dependent capacity modelled as reallocation (+conditional in-place write)")
			}
		}
		o := e.newObject("append", types.Typ[types.Uint8])
		e.countAlloc(st, newLen)
		var arr ArrExpr = emptyArr
		arr = e.arrCopy(arr, e.c64(0), old, s.off, s.len)
		arr = e.arrCopy(arr, s.len, tArr, tOff, tLen)
		st.mem.set(o, arr)
		return &SliceV{obj: o, off: e.c64(0), len: newLen, cap: newLen, bytes: true, max: mx}
	}
	// cell slices
	t, ok := tv.(*SliceV)
	if !ok {
		panic(unsupported(fmt.Sprintf("append of %T to cells", tv)))
	}
	if t.obj == nil {
		return s
	}
	tl, ok1 := t.len.ConstVal()
	toff, ok2 := t.off.ConstVal()
	sl, ok3 := s.len.ConstVal()
	soff, ok4 := s.off.ConstVal()
	if !(ok1 && ok2 && ok3 && ok4) {
		panic(unsupported("append on cell slices with symbolic length"))
	}
	tcv, _ := st.mem.get(t.obj)
	tc := tcv.(*CellsV)
	if tl == 0 && s.obj != nil {
		return s
	}
	newLen := sl + tl
	fits := tm.Ule(e.c64(newLen), s.cap)
	inPlace := false
	if s.obj != nil {
		if fits.IsTrue() {
			inPlace = true
		} else if !fits.IsFalse() && e.mustHold(st, fits) {
			inPlace = true
		}
	}
	if inPlace {
		scv, _ := st.mem.get(s.obj)
		sc := scv.(*CellsV)
		need := int(soff + newLen)
		cells := append([]Value(nil), sc.c...)
		for len(cells) < need {
			cells = append(cells, nil)
		}
		for i := uint64(0); i < tl; i++ {
			cells[soff+sl+i] = tc.c[toff+i]
		}
		st.mem.set(s.obj, &CellsV{cells})
		return &SliceV{obj: s.obj, off: s.off, len: e.c64(newLen), cap: s.cap, max: int(newLen)}
	}
	cells := make([]Value, 0, newLen)
	if s.obj != nil {
		scv, _ := st.mem.get(s.obj)
		sc := scv.(*CellsV)
		cells = append(cells, sc.c[soff:soff+sl]...)
	}
	cells = append(cells, tc.c[toff:toff+tl]...)
	o := e.newObject("append", nil)
	st.mem.set(o, &CellsV{cells})
	return &SliceV{obj: o, off: e.c64(0), len: e.c64(newLen), cap: e.c64(newLen), max: int(newLen)}
}

func (e *Engine) copyCells(st *State, dst, src *SliceV) Value {
	if dst.obj == nil || src.obj == nil {
		return e.c64(0)
	}
	dl, ok1 := dst.len.ConstVal()
	doff, ok2 := dst.off.ConstVal()
	sl, ok3 := src.len.ConstVal()
	soff, ok4 := src.off.ConstVal()
	if !(ok1 && ok2 && ok3 && ok4) {
		panic(unsupported("copy on cell slices with symbolic bounds"))
	}
	n := dl
	if sl < n {
		n = sl
	}
	scv, _ := st.mem.get(src.obj)
	dcv, _ := st.mem.get(dst.obj)
	cells := append([]Value(nil), dcv.(*CellsV).c...)
	for i := uint64(0); i < n; i++ {
		cells[doff+i] = scv.(*CellsV).c[soff+i]
	}
	st.mem.set(dst.obj, &CellsV{cells})
	return e.c64(n)
}
