package main

// Loading /repo with the harness overlay and building SSA.

import (
	"fmt"
	"go/types"
	"os"
	"path/filepath"
	"sort"
	"strings"

	"golang.org/x/tools/go/packages"
	"golang.org/x/tools/go/ssa"
	"golang.org/x/tools/go/ssa/ssautil"
)

const repoModule = "github.com/facebookincubator/tacquito"

type Loaded struct {
	prog    *ssa.Program
	pkgs    []*packages.Package
	byPath  map[string]*ssa.Package
	overlay map[string][]byte // virtual path in /repo -> content
	repo    string
	harness string
	apiPkgs map[string]string // package dir (relative) -> package name
	sizes   types.Sizes
}

// collectOverlay maps /verif/harness/<rel>/zz_vp_*.go onto /repo/<rel>/zz_vp_*.go and adds the
// per-package copy of the vp API.
func collectOverlay(repo, harnessDir string) (map[string][]byte, map[string]string, error) {
	ov := map[string][]byte{}
	pkgs := map[string]string{}
	api, err := os.ReadFile(filepath.Join(harnessDir, "_api", "zz_vp_api.go.tmpl"))
	if err != nil {
		return nil, nil, err
	}
	err = filepath.Walk(harnessDir, func(p string, info os.FileInfo, err error) error {
		if err != nil {
			return err
		}
		if info.IsDir() {
			if info.Name() == "_api" {
				return filepath.SkipDir
			}
			return nil
		}
		if !strings.HasPrefix(info.Name(), "zz_vp_") || !strings.HasSuffix(info.Name(), ".go") {
			return nil
		}
		rel, _ := filepath.Rel(harnessDir, p)
		dir := filepath.Dir(rel)
		if dir == "root" || strings.HasPrefix(dir, "root/") {
			dir = strings.TrimPrefix(strings.TrimPrefix(dir, "root"), "/")
		}
		b, err := os.ReadFile(p)
		if err != nil {
			return err
		}
		ov[filepath.Join(repo, dir, info.Name())] = b
		// package clause
		for _, line := range strings.Split(string(b), "\n") {
			if strings.HasPrefix(line, "package ") {
				pkgs[dir] = strings.TrimSpace(strings.TrimPrefix(line, "package "))
				break
			}
		}
		return nil
	})
	if err != nil {
		return nil, nil, err
	}
	for dir, name := range pkgs {
		src := strings.Replace(string(api), "package PKG", "package "+name, 1)
		ov[filepath.Join(repo, dir, "zz_vp_api.go")] = []byte(src)
	}
	return ov, pkgs, nil
}

func Load(repo, harnessDir string) (*Loaded, error) {
	repoRoot = repo
	ov, apiPkgs, err := collectOverlay(repo, harnessDir)
	if err != nil {
		return nil, err
	}
	cfg := &packages.Config{
		Mode:       packages.LoadAllSyntax,
		Dir:        repo,
		Overlay:    ov,
		BuildFlags: []string{"-tags=verif", "-mod=mod"},
		Env:        append(os.Environ(), "GOFLAGS=-mod=mod", "GOPROXY=off", "GOSUMDB=off", "GOTOOLCHAIN=local"),
	}
	pkgs, err := packages.Load(cfg, "./...")
	if err != nil {
		return nil, err
	}
	var errs []string
	packages.Visit(pkgs, nil, func(p *packages.Package) {
		if strings.HasPrefix(p.PkgPath, repoModule) {
			for _, e := range p.Errors {
				errs = append(errs, e.Error())
			}
		}
	})
	if len(errs) > 0 {
		sort.Strings(errs)
		return nil, fmt.Errorf("package errors:\n%s", strings.Join(errs, "\n"))
	}
	prog, _ := ssautil.AllPackages(pkgs, ssa.InstantiateGenerics)
	prog.Build()
	ld := &Loaded{sizes: types.SizesFor("gc", "amd64"), prog: prog, pkgs: pkgs, byPath: map[string]*ssa.Package{}, overlay: ov, repo: repo, harness: harnessDir, apiPkgs: apiPkgs}
	for _, p := range prog.AllPackages() {
		ld.byPath[p.Pkg.Path()] = p
	}
	return ld, nil
}

// Harnesses returns the harness functions whose name starts with prefix, sorted.
func (ld *Loaded) Harnesses(prefix string) []*ssa.Function {
	var out []*ssa.Function
	for path, p := range ld.byPath {
		if !strings.HasPrefix(path, repoModule) {
			continue
		}
		for name, m := range p.Members {
			if fn, ok := m.(*ssa.Function); ok && strings.HasPrefix(name, prefix) {
				out = append(out, fn)
			}
		}
	}
	sort.Slice(out, func(i, j int) bool { return out[i].String() < out[j].String() })
	return out
}

func (ld *Loaded) lookupType(pkg, name string) types.Type {
	p := ld.byPath[pkg]
	if p == nil {
		return nil
	}
	o := p.Pkg.Scope().Lookup(name)
	if o == nil {
		return nil
	}
	return o.Type()
}

var allowedStd = map[string]bool{
	"encoding/binary": true, "bufio": true, "io": true, "strings": true, "bytes": true,
	"unicode": true, "unicode/utf8": true, "encoding/hex": true, "errors": true,
	"math/bits": true, "sort": true, "net": true, "internal/bytealg": false, "strconv": true,
	"internal/stringslite": true, "slices": true, "cmp": true, "net/netip": true,
	"internal/itoa": true, "math": true, "path/filepath": true, "internal/byteorder": true,
}

func (e *Engine) allowedBody(fn *ssa.Function) bool {
	if fn.Pkg == nil {
		// synthetic wrapper / bound method / instantiation: allowed, the wrapped callee is checked
		return true
	}
	path := fn.Pkg.Pkg.Path()
	if strings.HasPrefix(path, repoModule) {
		return true
	}
	return allowedStd[path]
}
