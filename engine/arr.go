package main

// Functional byte-array expressions: the content of byte objects and strings.

import "fmt"

type ArrExpr interface{ arrTag() }

// ArrVec: dense vector of byte terms for indices 0..len-1, zero beyond.
type ArrVec struct{ v []*Term }

// ArrSym: a named SMT array constant (Array BV64 BV8).
type ArrSym struct{ name string }

type ArrStore struct {
	base ArrExpr
	idx  *Term
	val  *Term
}

// ArrCopy: base with [dstOff, dstOff+n) replaced by src[srcOff, srcOff+n).
type ArrCopy struct {
	base   ArrExpr
	dstOff *Term
	src    ArrExpr
	srcOff *Term
	n      *Term
}

type ArrIte struct {
	c    *Term
	a, b ArrExpr
}

func (*ArrVec) arrTag()   {}
func (*ArrSym) arrTag()   {}
func (*ArrStore) arrTag() {}
func (*ArrCopy) arrTag()  {}
func (*ArrIte) arrTag()   {}

var emptyArr = &ArrVec{}

type arrReadKey struct {
	a   ArrExpr
	idx int
}

func (e *Engine) c64(v uint64) *Term { return e.tm.BV(v, 64) }

func (e *Engine) arrRead(a ArrExpr, idx *Term) *Term {
	tm := e.tm
	switch x := a.(type) {
	case *ArrVec:
		if c, ok := idx.ConstVal(); ok {
			if c < uint64(len(x.v)) {
				return x.v[c]
			}
			return tm.BV(0, 8)
		}
	case *ArrSym:
		return tm.Select(x.name, idx)
	}
	key := arrReadKey{a, idx.id}
	if r, ok := e.arrCache[key]; ok {
		return r
	}
	var r *Term
	switch x := a.(type) {
	case *ArrVec:
		// symbolic index into a dense vector: ite chain (all-equal shortcut)
		r = tm.BV(0, 8)
		allSame := true
		for i := range x.v {
			if x.v[i] != x.v[0] {
				allSame = false
				break
			}
		}
		if allSame && len(x.v) > 0 && x.v[0].IsConst() && x.v[0].val == 0 {
			break
		}
		for i := len(x.v) - 1; i >= 0; i-- {
			r = tm.Ite(tm.Eq(idx, e.c64(uint64(i))), x.v[i], r)
		}
	case *ArrStore:
		r = tm.Ite(tm.Eq(idx, x.idx), x.val, e.arrRead(x.base, idx))
	case *ArrCopy:
		in := tm.And(tm.Ule(x.dstOff, idx), tm.Ult(idx, tm.Add(x.dstOff, x.n)))
		if in.IsFalse() {
			r = e.arrRead(x.base, idx)
		} else if in.IsTrue() {
			r = e.arrRead(x.src, tm.Add(x.srcOff, tm.Sub(idx, x.dstOff)))
		} else {
			r = tm.Ite(in, e.arrRead(x.src, tm.Add(x.srcOff, tm.Sub(idx, x.dstOff))), e.arrRead(x.base, idx))
		}
	case *ArrIte:
		r = tm.Ite(x.c, e.arrRead(x.a, idx), e.arrRead(x.b, idx))
	default:
		panic(fmt.Sprintf("arrRead %T", a))
	}
	e.arrCache[key] = r
	return r
}

func (e *Engine) arrStore(a ArrExpr, idx, val *Term) ArrExpr {
	if val.w != 8 {
		panic("arrStore: value is not a byte")
	}
	if v, ok := a.(*ArrVec); ok {
		if c, ok := idx.ConstVal(); ok && c < 1<<16 {
			n := len(v.v)
			if int(c) >= n {
				n = int(c) + 1
			}
			nv := make([]*Term, n)
			copy(nv, v.v)
			for i := len(v.v); i < n; i++ {
				nv[i] = e.tm.BV(0, 8)
			}
			nv[c] = val
			return &ArrVec{nv}
		}
	}
	return &ArrStore{a, idx, val}
}

// arrCopy returns base with n bytes copied from src. Concrete offsets/lengths on dense
// vectors are expanded into cells.
func (e *Engine) arrCopy(base ArrExpr, dstOff *Term, src ArrExpr, srcOff, n *Term) ArrExpr {
	if c, ok := n.ConstVal(); ok {
		if c == 0 {
			return base
		}
		if bv, ok := base.(*ArrVec); ok && c <= 1<<12 {
			if d, ok := dstOff.ConstVal(); ok && d < 1<<16 {
				nl := len(bv.v)
				if int(d+c) > nl {
					nl = int(d + c)
				}
				nv := make([]*Term, nl)
				copy(nv, bv.v)
				for i := len(bv.v); i < nl; i++ {
					nv[i] = e.tm.BV(0, 8)
				}
				for i := uint64(0); i < c; i++ {
					nv[d+i] = e.arrRead(src, e.tm.Add(srcOff, e.c64(i)))
				}
				return &ArrVec{nv}
			}
		}
	}
	return &ArrCopy{base, dstOff, src, srcOff, n}
}

func (e *Engine) arrIte(c *Term, a, b ArrExpr) ArrExpr {
	if c.IsTrue() || a == b {
		return a
	}
	if c.IsFalse() {
		return b
	}
	return &ArrIte{c, a, b}
}

func arrFromBytes(tm *TermManager, b []byte) *ArrVec {
	v := make([]*Term, len(b))
	for i, c := range b {
		v[i] = tm.BV(uint64(c), 8)
	}
	return &ArrVec{v}
}

func (e *Engine) mkStr(s string) *StrV {
	return &StrV{arr: arrFromBytes(e.tm, []byte(s)), off: e.c64(0), len: e.c64(uint64(len(s))), max: len(s)}
}

// concreteString returns the Go string if every byte and the length are constant.
func concreteString(s *StrV) (string, bool) {
	l, ok := s.len.ConstVal()
	if !ok {
		return "", false
	}
	off, ok := s.off.ConstVal()
	if !ok {
		return "", false
	}
	v, ok := s.arr.(*ArrVec)
	if !ok {
		if l == 0 {
			return "", true
		}
		return "", false
	}
	b := make([]byte, l)
	for i := uint64(0); i < l; i++ {
		if off+i < uint64(len(v.v)) {
			c, ok := v.v[off+i].ConstVal()
			if !ok {
				return "", false
			}
			b[i] = byte(c)
		}
	}
	return string(b), true
}

// strBytes returns the byte terms of a string with constant length.
func (e *Engine) strByteTerms(s *StrV) ([]*Term, bool) {
	l, ok := s.len.ConstVal()
	if !ok || l > 1<<16 {
		return nil, false
	}
	out := make([]*Term, l)
	for i := uint64(0); i < l; i++ {
		out[i] = e.arrRead(s.arr, e.tm.Add(s.off, e.c64(i)))
	}
	return out, true
}
