package main

// Hash-consed SMT term DAG (Bool + fixed-width bit-vectors + reads of named byte arrays +
// uninterpreted functions) with constant folding.  One TermManager per exploration
// (single-threaded).

import (
	"fmt"
	"math/bits"
	"strconv"
	"strings"
)

type Op uint8

const (
	OpConst Op = iota
	OpVar
	OpNot
	OpAnd
	OpOr
	OpIte
	OpEq
	OpAdd
	OpSub
	OpMul
	OpUDiv
	OpURem
	OpSDiv
	OpSRem
	OpBAnd
	OpBOr
	OpBXor
	OpBNot
	OpNeg
	OpShl
	OpLShr
	OpAShr
	OpUlt
	OpUle
	OpSlt
	OpSle
	OpZExt
	OpSExt
	OpExtract
	OpConcat
	OpSelect // byte array read: name = array symbol, args[0] = 64-bit index
	OpUF     // uninterpreted function application
	OpStrInRe
)

var opNames = map[Op]string{
	OpNot: "not", OpAnd: "and", OpOr: "or", OpIte: "ite", OpEq: "=",
	OpAdd: "bvadd", OpSub: "bvsub", OpMul: "bvmul", OpUDiv: "bvudiv", OpURem: "bvurem",
	OpSDiv: "bvsdiv", OpSRem: "bvsrem", OpBAnd: "bvand", OpBOr: "bvor", OpBXor: "bvxor",
	OpBNot: "bvnot", OpNeg: "bvneg", OpShl: "bvshl", OpLShr: "bvlshr", OpAShr: "bvashr",
	OpUlt: "bvult", OpUle: "bvule", OpSlt: "bvslt", OpSle: "bvsle", OpConcat: "concat",
}

// Term is an immutable node. w == 0 means Bool, otherwise a bit-vector of width w.
type Term struct {
	id   int
	op   Op
	w    int
	args []*Term
	val  uint64 // OpConst (w<=64); Bool: 0/1
	name string // OpVar, OpSelect (array), OpUF (function)
	hi   int    // OpExtract
	lo   int    // OpExtract
	size int    // dag size estimate (saturating)
}

func (t *Term) IsConst() bool { return t.op == OpConst }
func (t *Term) IsTrue() bool  { return t.op == OpConst && t.w == 0 && t.val == 1 }
func (t *Term) IsFalse() bool { return t.op == OpConst && t.w == 0 && t.val == 0 }

type ufSig struct {
	argW []int
	resW int
}

type TermManager struct {
	tab    map[string]*Term
	nextID int
	vars   map[string]int   // var name -> width (0 bool)
	arrays map[string]bool  // declared byte arrays
	ufs    map[string]ufSig // UF name -> signature
	strs   map[string]bool  // String-sorted variables (C11)
	fresh  int
	True   *Term
	False  *Term
}

func NewTermManager() *TermManager {
	tm := &TermManager{tab: map[string]*Term{}, vars: map[string]int{}, arrays: map[string]bool{}, ufs: map[string]ufSig{}, strs: map[string]bool{}}
	tm.True = tm.mk(&Term{op: OpConst, w: 0, val: 1})
	tm.False = tm.mk(&Term{op: OpConst, w: 0, val: 0})
	return tm
}

func (tm *TermManager) mk(t *Term) *Term {
	var sb strings.Builder
	sb.WriteByte(byte(t.op) + 'A')
	sb.WriteString(strconv.Itoa(t.w))
	sb.WriteByte(':')
	switch t.op {
	case OpConst:
		sb.WriteString(strconv.FormatUint(t.val, 16))
	case OpVar:
		sb.WriteString(t.name)
	case OpExtract:
		sb.WriteString(strconv.Itoa(t.hi))
		sb.WriteByte('.')
		sb.WriteString(strconv.Itoa(t.lo))
	case OpSelect, OpUF, OpStrInRe:
		sb.WriteString(t.name)
	}
	for _, a := range t.args {
		sb.WriteByte(',')
		sb.WriteString(strconv.Itoa(a.id))
	}
	k := sb.String()
	if e, ok := tm.tab[k]; ok {
		return e
	}
	tm.nextID++
	t.id = tm.nextID
	sz := 1
	for _, a := range t.args {
		sz += a.size
		if sz > 1<<30 {
			sz = 1 << 30
		}
	}
	t.size = sz
	tm.tab[k] = t
	return t
}

func mask(w int) uint64 {
	if w >= 64 {
		return ^uint64(0)
	}
	return (uint64(1) << uint(w)) - 1
}

func (tm *TermManager) Bool(b bool) *Term {
	if b {
		return tm.True
	}
	return tm.False
}

func (tm *TermManager) BV(v uint64, w int) *Term {
	if w <= 0 || w > 64 {
		panic(fmt.Sprintf("BV const width %d", w))
	}
	return tm.mk(&Term{op: OpConst, w: w, val: v & mask(w)})
}

func (tm *TermManager) Var(name string, w int) *Term {
	if ow, ok := tm.vars[name]; ok && ow != w {
		panic("var redeclared with different width: " + name)
	}
	tm.vars[name] = w
	return tm.mk(&Term{op: OpVar, w: w, name: name})
}

func (tm *TermManager) FreshName(prefix string) string {
	tm.fresh++
	return fmt.Sprintf("%s_%d", prefix, tm.fresh)
}

func (tm *TermManager) FreshVar(prefix string, w int) *Term {
	return tm.Var(tm.FreshName(prefix), w)
}

// ---------- boolean ----------

func (tm *TermManager) Not(a *Term) *Term {
	if a.w != 0 {
		panic("Not on non-bool")
	}
	if a.IsConst() {
		return tm.Bool(a.val == 0)
	}
	if a.op == OpNot {
		return a.args[0]
	}
	return tm.mk(&Term{op: OpNot, w: 0, args: []*Term{a}})
}

func (tm *TermManager) And(xs ...*Term) *Term {
	var out []*Term
	seen := map[int]bool{}
	for _, x := range xs {
		if x.w != 0 {
			panic("And on non-bool")
		}
		if x.IsFalse() {
			return tm.False
		}
		if x.IsTrue() {
			continue
		}
		if x.op == OpAnd {
			for _, y := range x.args {
				if !seen[y.id] {
					seen[y.id] = true
					out = append(out, y)
				}
			}
			continue
		}
		if !seen[x.id] {
			seen[x.id] = true
			out = append(out, x)
		}
	}
	for _, x := range out {
		if x.op == OpNot && seen[x.args[0].id] {
			return tm.False
		}
	}
	switch len(out) {
	case 0:
		return tm.True
	case 1:
		return out[0]
	}
	return tm.mk(&Term{op: OpAnd, w: 0, args: out})
}

func (tm *TermManager) Or(xs ...*Term) *Term {
	var out []*Term
	seen := map[int]bool{}
	for _, x := range xs {
		if x.w != 0 {
			panic("Or on non-bool")
		}
		if x.IsTrue() {
			return tm.True
		}
		if x.IsFalse() {
			continue
		}
		if x.op == OpOr {
			for _, y := range x.args {
				if !seen[y.id] {
					seen[y.id] = true
					out = append(out, y)
				}
			}
			continue
		}
		if !seen[x.id] {
			seen[x.id] = true
			out = append(out, x)
		}
	}
	for _, x := range out {
		if x.op == OpNot && seen[x.args[0].id] {
			return tm.True
		}
	}
	switch len(out) {
	case 0:
		return tm.False
	case 1:
		return out[0]
	}
	return tm.mk(&Term{op: OpOr, w: 0, args: out})
}

func (tm *TermManager) Implies(a, b *Term) *Term { return tm.Or(tm.Not(a), b) }

func (tm *TermManager) Ite(c, a, b *Term) *Term {
	if c.w != 0 {
		panic("Ite cond not bool")
	}
	if a.w != b.w {
		panic(fmt.Sprintf("Ite width mismatch %d %d", a.w, b.w))
	}
	if c.IsTrue() {
		return a
	}
	if c.IsFalse() {
		return b
	}
	if a == b {
		return a
	}
	if a.w == 0 {
		if a.IsTrue() && b.IsFalse() {
			return c
		}
		if a.IsFalse() && b.IsTrue() {
			return tm.Not(c)
		}
		if a.IsTrue() {
			return tm.Or(c, b)
		}
		if a.IsFalse() {
			return tm.And(tm.Not(c), b)
		}
		if b.IsTrue() {
			return tm.Or(tm.Not(c), a)
		}
		if b.IsFalse() {
			return tm.And(c, a)
		}
	}
	if c.op == OpNot {
		return tm.Ite(c.args[0], b, a)
	}
	// ite(c, x, ite(c, y, z)) -> ite(c, x, z)
	if b.op == OpIte && b.args[0] == c {
		return tm.Ite(c, a, b.args[2])
	}
	if a.op == OpIte && a.args[0] == c {
		return tm.Ite(c, a.args[1], b)
	}
	return tm.mk(&Term{op: OpIte, w: a.w, args: []*Term{c, a, b}})
}

func (tm *TermManager) Eq(a, b *Term) *Term {
	if a.w != b.w {
		panic(fmt.Sprintf("Eq width mismatch %d %d", a.w, b.w))
	}
	if a == b {
		return tm.True
	}
	if a.IsConst() && b.IsConst() {
		return tm.Bool(a.val == b.val)
	}
	if a.w == 0 {
		if a.IsTrue() {
			return b
		}
		if b.IsTrue() {
			return a
		}
		if a.IsFalse() {
			return tm.Not(b)
		}
		if b.IsFalse() {
			return tm.Not(a)
		}
	}
	// canonical order: const second
	if a.IsConst() {
		a, b = b, a
	}
	// eq(ite(c,k1,k2), k) with constants
	if b.IsConst() && a.op == OpIte && a.args[1].IsConst() && a.args[2].IsConst() {
		t1 := a.args[1].val == b.val
		t2 := a.args[2].val == b.val
		switch {
		case t1 && t2:
			return tm.True
		case t1:
			return a.args[0]
		case t2:
			return tm.Not(a.args[0])
		default:
			return tm.False
		}
	}
	// eq(zext(x), const): compare in the narrow width when the constant fits
	if b.IsConst() && a.op == OpZExt {
		x := a.args[0]
		if b.val&^mask(x.w) != 0 {
			return tm.False
		}
		return tm.Eq(x, tm.BV(b.val, x.w))
	}
	if !b.IsConst() && a.id > b.id {
		a, b = b, a
	}
	return tm.mk(&Term{op: OpEq, w: 0, args: []*Term{a, b}})
}

func (tm *TermManager) Ne(a, b *Term) *Term { return tm.Not(tm.Eq(a, b)) }

// ---------- bit-vector arithmetic ----------

func sext64(v uint64, w int) int64 {
	if w >= 64 {
		return int64(v)
	}
	if v&(1<<uint(w-1)) != 0 {
		return int64(v | ^mask(w))
	}
	return int64(v)
}

func (tm *TermManager) bin(op Op, a, b *Term) *Term {
	if a.w != b.w || a.w == 0 {
		panic(fmt.Sprintf("bin %v width mismatch %d %d", opNames[op], a.w, b.w))
	}
	w := a.w
	if a.IsConst() && b.IsConst() {
		x, y := a.val, b.val
		var r uint64
		ok := true
		switch op {
		case OpAdd:
			r = x + y
		case OpSub:
			r = x - y
		case OpMul:
			r = x * y
		case OpUDiv:
			if y == 0 {
				r = mask(w)
			} else {
				r = x / y
			}
		case OpURem:
			if y == 0 {
				r = x
			} else {
				r = x % y
			}
		case OpSDiv:
			if y == 0 {
				ok = false
			} else {
				sx, sy := sext64(x, w), sext64(y, w)
				if sy == -1 {
					r = uint64(-sx)
				} else {
					r = uint64(sx / sy)
				}
			}
		case OpSRem:
			if y == 0 {
				ok = false
			} else {
				sx, sy := sext64(x, w), sext64(y, w)
				if sy == -1 {
					r = 0
				} else {
					r = uint64(sx % sy)
				}
			}
		case OpBAnd:
			r = x & y
		case OpBOr:
			r = x | y
		case OpBXor:
			r = x ^ y
		case OpShl:
			if y >= uint64(w) {
				r = 0
			} else {
				r = x << y
			}
		case OpLShr:
			if y >= uint64(w) {
				r = 0
			} else {
				r = x >> y
			}
		case OpAShr:
			sx := sext64(x, w)
			if y >= uint64(w) {
				if sx < 0 {
					r = mask(w)
				} else {
					r = 0
				}
			} else {
				r = uint64(sx >> y)
			}
		default:
			ok = false
		}
		if ok {
			return tm.BV(r, w)
		}
	}
	switch op {
	case OpAdd:
		if a.IsConst() {
			a, b = b, a
		}
		if b.IsConst() && b.val == 0 {
			return a
		}
		// (x + c1) + c2 -> x + (c1+c2)
		if b.IsConst() && a.op == OpAdd && a.args[1].IsConst() {
			return tm.bin(OpAdd, a.args[0], tm.BV(a.args[1].val+b.val, w))
		}
		// (x - c1) + c2
		if b.IsConst() && a.op == OpSub && a.args[1].IsConst() {
			return tm.bin(OpAdd, a.args[0], tm.BV(b.val-a.args[1].val, w))
		}
	case OpSub:
		if b.IsConst() && b.val == 0 {
			return a
		}
		if a == b {
			return tm.BV(0, w)
		}
		if b.IsConst() {
			return tm.bin(OpAdd, a, tm.BV(-b.val, w))
		}
		// (x + y) - x -> y ; (x + y) - y -> x
		if a.op == OpAdd {
			if a.args[0] == b {
				return a.args[1]
			}
			if a.args[1] == b {
				return a.args[0]
			}
		}
	case OpMul:
		if a.IsConst() {
			a, b = b, a
		}
		if b.IsConst() {
			if b.val == 0 {
				return tm.BV(0, w)
			}
			if b.val == 1 {
				return a
			}
		}
	case OpBAnd:
		if a.IsConst() {
			a, b = b, a
		}
		if b.IsConst() {
			if b.val == 0 {
				return tm.BV(0, w)
			}
			if b.val == mask(w) {
				return a
			}
			// and(zext(x), m) where m covers all bits of x
			if a.op == OpZExt && b.val&mask(a.args[0].w) == mask(a.args[0].w) {
				return a
			}
		}
		if a == b {
			return a
		}
	case OpBOr:
		// byte reassembly: zext(x)<<j | zext(y)<<k with adjacent fields becomes a concatenation
		if va, sa, ok := tm.placement(a); ok {
			if vb, sb, ok := tm.placement(b); ok {
				var hi, lo *Term
				shift := -1
				if sa == sb+vb.w {
					hi, lo, shift = va, vb, sb
				} else if sb == sa+va.w {
					hi, lo, shift = vb, va, sa
				}
				if shift >= 0 && hi.w+lo.w+shift <= w {
					v := tm.Concat(hi, lo)
					var r *Term
					if v.w == w {
						r = v
					} else {
						r = tm.ZExt(v, w)
					}
					if shift > 0 {
						r = tm.bin(OpShl, r, tm.BV(uint64(shift), w))
					}
					return r
				}
			}
		}
		if a.IsConst() {
			a, b = b, a
		}
		if b.IsConst() {
			if b.val == 0 {
				return a
			}
			if b.val == mask(w) {
				return b
			}
		}
		if a == b {
			return a
		}
	case OpBXor:
		if a.IsConst() {
			a, b = b, a
		}
		if b.IsConst() && b.val == 0 {
			return a
		}
		if a == b {
			return tm.BV(0, w)
		}
		// (x ^ y) ^ y -> x
		if a.op == OpBXor {
			if a.args[0] == b {
				return a.args[1]
			}
			if a.args[1] == b {
				return a.args[0]
			}
		}
		if b.op == OpBXor {
			if b.args[0] == a {
				return b.args[1]
			}
			if b.args[1] == a {
				return b.args[0]
			}
		}
	case OpShl, OpLShr, OpAShr:
		if b.IsConst() && b.val == 0 {
			return a
		}
		if b.IsConst() && b.val >= uint64(w) && op != OpAShr {
			return tm.BV(0, w)
		}
		// lshr(zext(x), k) with k >= width(x) -> 0
		if op == OpLShr && b.IsConst() && a.op == OpZExt && b.val >= uint64(a.args[0].w) {
			return tm.BV(0, w)
		}
	}
	return tm.mk(&Term{op: op, w: w, args: []*Term{a, b}})
}

func (tm *TermManager) Add(a, b *Term) *Term  { return tm.bin(OpAdd, a, b) }
func (tm *TermManager) Sub(a, b *Term) *Term  { return tm.bin(OpSub, a, b) }
func (tm *TermManager) Mul(a, b *Term) *Term  { return tm.bin(OpMul, a, b) }
func (tm *TermManager) UDiv(a, b *Term) *Term { return tm.bin(OpUDiv, a, b) }
func (tm *TermManager) URem(a, b *Term) *Term { return tm.bin(OpURem, a, b) }
func (tm *TermManager) SDiv(a, b *Term) *Term { return tm.bin(OpSDiv, a, b) }
func (tm *TermManager) SRem(a, b *Term) *Term { return tm.bin(OpSRem, a, b) }
func (tm *TermManager) BAnd(a, b *Term) *Term { return tm.bin(OpBAnd, a, b) }
func (tm *TermManager) BOr(a, b *Term) *Term  { return tm.bin(OpBOr, a, b) }
func (tm *TermManager) BXor(a, b *Term) *Term { return tm.bin(OpBXor, a, b) }
func (tm *TermManager) Shl(a, b *Term) *Term  { return tm.bin(OpShl, a, b) }
func (tm *TermManager) LShr(a, b *Term) *Term { return tm.bin(OpLShr, a, b) }
func (tm *TermManager) AShr(a, b *Term) *Term { return tm.bin(OpAShr, a, b) }

func (tm *TermManager) BNot(a *Term) *Term {
	if a.IsConst() {
		return tm.BV(^a.val, a.w)
	}
	if a.op == OpBNot {
		return a.args[0]
	}
	return tm.mk(&Term{op: OpBNot, w: a.w, args: []*Term{a}})
}

func (tm *TermManager) Neg(a *Term) *Term {
	if a.IsConst() {
		return tm.BV(-a.val, a.w)
	}
	return tm.mk(&Term{op: OpNeg, w: a.w, args: []*Term{a}})
}

// upper bound on the unsigned value of t, if cheaply known
func (tm *TermManager) ubound(t *Term) (uint64, bool) {
	switch t.op {
	case OpConst:
		return t.val, true
	case OpZExt:
		if b, ok := tm.ubound(t.args[0]); ok {
			return b, true
		}
		return mask(t.args[0].w), true
	case OpSelect:
		return 255, true
	case OpIte:
		a, ok1 := tm.ubound(t.args[1])
		b, ok2 := tm.ubound(t.args[2])
		if ok1 && ok2 {
			if a > b {
				return a, true
			}
			return b, true
		}
	case OpBAnd:
		if t.args[1].IsConst() {
			return t.args[1].val, true
		}
	case OpAdd:
		a, ok1 := tm.ubound(t.args[0])
		b, ok2 := tm.ubound(t.args[1])
		if ok1 && ok2 && t.w >= 16 && a < 1<<40 && b < 1<<40 && (a+b) <= mask(t.w) {
			return a + b, true
		}
	case OpLShr:
		if a, ok := tm.ubound(t.args[0]); ok && t.args[1].IsConst() && t.args[1].val < 64 {
			return a >> t.args[1].val, true
		}
	}
	if t.w < 64 {
		return mask(t.w), true
	}
	return 0, false
}

func (tm *TermManager) cmp(op Op, a, b *Term) *Term {
	if a.w != b.w || a.w == 0 {
		panic(fmt.Sprintf("cmp width mismatch %d %d", a.w, b.w))
	}
	w := a.w
	if a.IsConst() && b.IsConst() {
		switch op {
		case OpUlt:
			return tm.Bool(a.val < b.val)
		case OpUle:
			return tm.Bool(a.val <= b.val)
		case OpSlt:
			return tm.Bool(sext64(a.val, w) < sext64(b.val, w))
		case OpSle:
			return tm.Bool(sext64(a.val, w) <= sext64(b.val, w))
		}
	}
	if a == b {
		return tm.Bool(op == OpUle || op == OpSle)
	}
	ua, oka := tm.ubound(a)
	ub, okb := tm.ubound(b)
	if op == OpSlt || op == OpSle {
		half := uint64(1) << uint(w-1)
		if oka && okb && ua < half && ub < half {
			// both operands are non-negative: the unsigned comparison is equivalent
			if op == OpSlt {
				op = OpUlt
			} else {
				op = OpUle
			}
		}
	}
	if op == OpUlt || op == OpUle {
		if oka && b.IsConst() {
			if op == OpUlt && ua < b.val {
				return tm.True
			}
			if op == OpUle && ua <= b.val {
				return tm.True
			}
		}
		if okb && a.IsConst() {
			if op == OpUlt && a.val >= ub {
				return tm.False
			}
			if op == OpUle && a.val > ub {
				return tm.False
			}
		}
		if op == OpUlt && b.IsConst() && b.val == 0 {
			return tm.False
		}
		if op == OpUle && a.IsConst() && a.val == 0 {
			return tm.True
		}
	}
	return tm.mk(&Term{op: op, w: 0, args: []*Term{a, b}})
}

func (tm *TermManager) Ult(a, b *Term) *Term { return tm.cmp(OpUlt, a, b) }
func (tm *TermManager) Ule(a, b *Term) *Term { return tm.cmp(OpUle, a, b) }
func (tm *TermManager) Slt(a, b *Term) *Term { return tm.cmp(OpSlt, a, b) }
func (tm *TermManager) Sle(a, b *Term) *Term { return tm.cmp(OpSle, a, b) }

func (tm *TermManager) ZExt(a *Term, w int) *Term {
	if a.w == 0 {
		panic("zext of bool")
	}
	if w == a.w {
		return a
	}
	if w < a.w {
		panic("zext to narrower")
	}
	if a.IsConst() {
		return tm.BV(a.val, w)
	}
	if a.op == OpZExt {
		return tm.ZExt(a.args[0], w)
	}
	if a.op == OpIte && a.args[1].IsConst() && a.args[2].IsConst() {
		return tm.Ite(a.args[0], tm.BV(a.args[1].val, w), tm.BV(a.args[2].val, w))
	}
	return tm.mk(&Term{op: OpZExt, w: w, args: []*Term{a}})
}

func (tm *TermManager) SExt(a *Term, w int) *Term {
	if w == a.w {
		return a
	}
	if w < a.w {
		panic("sext to narrower")
	}
	if a.IsConst() {
		return tm.BV(uint64(sext64(a.val, a.w)), w)
	}
	if a.op == OpZExt {
		// zero-extended value is non-negative
		return tm.ZExt(a.args[0], w)
	}
	return tm.mk(&Term{op: OpSExt, w: w, args: []*Term{a}})
}

func (tm *TermManager) Extract(a *Term, hi, lo int) *Term {
	if hi < lo || hi >= a.w {
		panic(fmt.Sprintf("bad extract %d %d of width %d", hi, lo, a.w))
	}
	w := hi - lo + 1
	if w == a.w {
		return a
	}
	if a.IsConst() {
		return tm.BV(a.val>>uint(lo), w)
	}
	switch a.op {
	case OpZExt, OpSExt:
		x := a.args[0]
		if hi < x.w {
			return tm.Extract(x, hi, lo)
		}
		if a.op == OpZExt && lo >= x.w {
			return tm.BV(0, w)
		}
		if a.op == OpZExt && lo == 0 {
			return tm.ZExt(x, w)
		}
	case OpExtract:
		return tm.Extract(a.args[0], a.lo+hi, a.lo+lo)
	case OpConcat:
		h, l := a.args[0], a.args[1]
		if hi < l.w {
			return tm.Extract(l, hi, lo)
		}
		if lo >= l.w {
			return tm.Extract(h, hi-l.w, lo-l.w)
		}
	case OpIte:
		if a.args[1].IsConst() || a.args[2].IsConst() {
			return tm.Ite(a.args[0], tm.Extract(a.args[1], hi, lo), tm.Extract(a.args[2], hi, lo))
		}
	case OpBAnd, OpBOr, OpBXor:
		if lo == 0 || a.args[1].IsConst() {
			return tm.bin(a.op, tm.Extract(a.args[0], hi, lo), tm.Extract(a.args[1], hi, lo))
		}
	case OpAdd, OpSub, OpMul:
		if lo == 0 {
			return tm.bin(a.op, tm.Extract(a.args[0], hi, 0), tm.Extract(a.args[1], hi, 0))
		}
	case OpLShr:
		// extract(lshr(x, k)) with constant k
		if a.args[1].IsConst() {
			k := int(a.args[1].val)
			if hi+k < a.w {
				return tm.Extract(a.args[0], hi+k, lo+k)
			}
		}
	case OpShl:
		if a.args[1].IsConst() {
			k := int(a.args[1].val)
			if lo >= k {
				return tm.Extract(a.args[0], hi-k, lo-k)
			}
			if hi < k {
				return tm.BV(0, w)
			}
		}
	}
	return tm.mk(&Term{op: OpExtract, w: w, args: []*Term{a}, hi: hi, lo: lo})
}

// placement recognises t = zext(v) << shift.
func (tm *TermManager) placement(t *Term) (*Term, int, bool) {
	switch t.op {
	case OpZExt:
		return t.args[0], 0, true
	case OpShl:
		if t.args[1].IsConst() {
			if v, s, ok := tm.placement(t.args[0]); ok {
				k := int(t.args[1].val)
				if v.w+s+k <= t.w {
					return v, s + k, true
				}
			}
		}
	}
	return nil, 0, false
}

func (tm *TermManager) Concat(h, l *Term) *Term {
	w := h.w + l.w
	// concat(extract(x,a,b), extract(x,b-1,c)) -> extract(x,a,c)
	if h.op == OpExtract && l.op == OpExtract && h.args[0] == l.args[0] && h.lo == l.hi+1 {
		return tm.Extract(h.args[0], h.hi, l.lo)
	}
	// concat(a, concat(b, c)) with a,b adjacent extracts
	if h.op == OpExtract && l.op == OpConcat && l.args[0].op == OpExtract && h.args[0] == l.args[0].args[0] && h.lo == l.args[0].hi+1 {
		return tm.Concat(tm.Extract(h.args[0], h.hi, l.args[0].lo), l.args[1])
	}
	if h.IsConst() && l.IsConst() && w <= 64 {
		return tm.BV(h.val<<uint(l.w)|l.val, w)
	}
	if h.IsConst() && h.val == 0 && w <= 64 {
		return tm.ZExt(l, w)
	}
	return tm.mk(&Term{op: OpConcat, w: w, args: []*Term{h, l}})
}

// Resize converts a to width w using zero/sign extension or truncation (Go conversion).
func (tm *TermManager) Resize(a *Term, w int, signed bool) *Term {
	switch {
	case w == a.w:
		return a
	case w < a.w:
		return tm.Extract(a, w-1, 0)
	case signed:
		return tm.SExt(a, w)
	default:
		return tm.ZExt(a, w)
	}
}

func (tm *TermManager) DeclareArray(name string) { tm.arrays[name] = true }

func (tm *TermManager) Select(arr string, idx *Term) *Term {
	if idx.w != 64 {
		panic("select index must be 64-bit")
	}
	tm.arrays[arr] = true
	return tm.mk(&Term{op: OpSelect, w: 8, name: arr, args: []*Term{idx}})
}

func (tm *TermManager) UF(name string, resW int, args ...*Term) *Term {
	sig, ok := tm.ufs[name]
	if !ok {
		sig = ufSig{resW: resW}
		for _, a := range args {
			sig.argW = append(sig.argW, a.w)
		}
		tm.ufs[name] = sig
	}
	return tm.mk(&Term{op: OpUF, w: resW, name: name, args: args})
}

// ConstVal returns the constant value of t if it is constant.
func (t *Term) ConstVal() (uint64, bool) {
	if t.op == OpConst {
		return t.val, true
	}
	return 0, false
}

func (t *Term) SConstVal() (int64, bool) {
	if t.op == OpConst {
		return sext64(t.val, t.w), true
	}
	return 0, false
}

var _ = bits.Len

// Rebuild constructs a term with the operator of t over new arguments (through the simplifying
// constructors).
func (tm *TermManager) Rebuild(t *Term, args []*Term) *Term {
	switch t.op {
	case OpConst, OpVar:
		return t
	case OpNot:
		return tm.Not(args[0])
	case OpAnd:
		return tm.And(args...)
	case OpOr:
		return tm.Or(args...)
	case OpIte:
		return tm.Ite(args[0], args[1], args[2])
	case OpEq:
		return tm.Eq(args[0], args[1])
	case OpAdd, OpSub, OpMul, OpUDiv, OpURem, OpSDiv, OpSRem, OpBAnd, OpBOr, OpBXor, OpShl, OpLShr, OpAShr:
		return tm.bin(t.op, args[0], args[1])
	case OpBNot:
		return tm.BNot(args[0])
	case OpNeg:
		return tm.Neg(args[0])
	case OpUlt, OpUle, OpSlt, OpSle:
		return tm.cmp(t.op, args[0], args[1])
	case OpZExt:
		return tm.ZExt(args[0], t.w)
	case OpSExt:
		return tm.SExt(args[0], t.w)
	case OpExtract:
		return tm.Extract(args[0], t.hi, t.lo)
	case OpConcat:
		return tm.Concat(args[0], args[1])
	case OpSelect:
		return tm.Select(t.name, args[0])
	case OpUF:
		return tm.UF(t.name, t.w, args...)
	}
	panic("Rebuild: unsupported op")
}

// RenameArrays returns t with every read of an array in names redirected to the array
// name+suffix.
func (tm *TermManager) RenameArrays(t *Term, names map[string]bool, suffix string, memo map[*Term]*Term) *Term {
	if r, ok := memo[t]; ok {
		return r
	}
	var r *Term
	if len(t.args) == 0 {
		r = t
	} else {
		args := make([]*Term, len(t.args))
		changed := false
		for i, a := range t.args {
			args[i] = tm.RenameArrays(a, names, suffix, memo)
			if args[i] != a {
				changed = true
			}
		}
		switch {
		case t.op == OpSelect && names[t.name]:
			r = tm.Select(t.name+suffix, args[0])
		case changed:
			r = tm.Rebuild(t, args)
		default:
			r = t
		}
	}
	memo[t] = r
	return r
}
