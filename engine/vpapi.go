package main

// The vp* harness API as seen by the engine: nondeterministic inputs become tape slots,
// assumptions extend the path condition, assertions become solver obligations.

import (
	"fmt"
	"go/types"

	"golang.org/x/tools/go/ssa"
)

var vpAPI map[string]intrinsicFn

func init() {
	if vpAPI == nil {
		vpAPI = map[string]intrinsicFn{}
	}
	for k, v := range vpAPIBase() {
		vpAPI[k] = v
	}
}

func vpAPIBase() map[string]intrinsicFn {
	return map[string]intrinsicFn{
		"vpU8": func(e *Engine, st *State, fn *ssa.Function, a []Value, s ssa.Instruction) []Outcome {
			return vpScalar(e, st, "u8", 8)
		},
		"vpU16": func(e *Engine, st *State, fn *ssa.Function, a []Value, s ssa.Instruction) []Outcome {
			return vpScalar(e, st, "u16", 16)
		},
		"vpU32": func(e *Engine, st *State, fn *ssa.Function, a []Value, s ssa.Instruction) []Outcome {
			return vpScalar(e, st, "u32", 32)
		},
		"vpU64": func(e *Engine, st *State, fn *ssa.Function, a []Value, s ssa.Instruction) []Outcome {
			return vpScalar(e, st, "u64", 64)
		},
		"vpBool":         vpBool,
		"vpInt":          vpInt,
		"vpIntC":         vpIntC,
		"vpGo":           vpGo,
		"vpBytes":        vpBytes,
		"vpBytesCap":     vpBytesCap,
		"vpBytesCapN":    vpBytesCapN,
		"vpAllocBytes":   vpAllocBytes,
		"vpStr":          vpStr,
		"vpStrN":         vpStrN,
		"vpDump":         vpDump,
		"vpConstStr":     vpConstStr,
		"vpEngineOption": vpEngineOption,
		"vpBytesN":       vpBytesN,
		"vpAssume":       vpAssume,
		"vpAssert":       vpAssert,
		"vpReach":        vpReach,
		"vpObserveInt":   vpObserveInt,
		"vpObserveBool":  vpObserveBool,
		"vpObserveBytes": vpObserveBytes,
		"vpObserveStr":   vpObserveStr,
		"vpBound":        vpBound,
		"vpStrictSlice":  vpStrictSlice,
		"vpPanicsOK":     vpPanicsOK,
		"vpMetric":       vpMetric,
		"vpMetricMin":    vpMetricMin,
		"vpLazyGo":       vpLazyGo,
		"vpSymbolic": func(e *Engine, st *State, fn *ssa.Function, a []Value, s ssa.Instruction) []Outcome {
			return one(st, e.tm.True)
		},
		"vpAllocLimit": vpAllocLimit,
		"vpBlocked":    vpBlocked,
	}
}

func constStrArg(v Value) string {
	if s, ok := v.(*StrV); ok {
		if cs, ok := concreteString(s); ok {
			return cs
		}
	}
	return "?"
}

func constIntArg(v Value, what string) int {
	t, ok := v.(*Term)
	if ok {
		if c, ok := t.SConstVal(); ok {
			return int(c)
		}
	}
	panic(unsupported(what + " must be a constant"))
}

func vpScalar(e *Engine, st *State, kind string, w int) []Outcome {
	t := e.tm.FreshVar("in_"+kind, w)
	st.tape = st.tape.push(TapeEntry{Kind: kind, Term: t})
	return one(st, t)
}

func vpBool(e *Engine, st *State, fn *ssa.Function, a []Value, s ssa.Instruction) []Outcome {
	t := e.tm.FreshVar("in_b", 0)
	st.tape = st.tape.push(TapeEntry{Kind: "bool", Term: t})
	return one(st, t)
}

func vpInt(e *Engine, st *State, fn *ssa.Function, a []Value, s ssa.Instruction) []Outcome {
	tm := e.tm
	lo, hi := a[0].(*Term), a[1].(*Term)
	t := tm.FreshVar("in_i", 64)
	st.tape = st.tape.push(TapeEntry{Kind: "int", Term: t})
	st.assume(tm.And(tm.Sle(lo, t), tm.Sle(t, hi)))
	if c1, ok := lo.SConstVal(); ok {
		if c2, ok := hi.SConstVal(); ok {
			if c1 == c2 {
				return one(st, lo)
			}
			if c1 >= 0 && c2 >= c1 {
				e.hints[t] = [2]uint64{uint64(c1), uint64(c2)}
			}
		}
	}
	return one(st, t)
}

func (e *Engine) freshBytes(st *State, kind string, max int) (*Term, string) {
	name := e.tm.FreshName("in_" + kind)
	l := e.tm.Var(name+"_len", 64)
	st.assume(e.tm.Ule(l, e.c64(uint64(max))))
	e.tm.DeclareArray(name)
	return l, name
}

func vpBytes(e *Engine, st *State, fn *ssa.Function, a []Value, s ssa.Instruction) []Outcome {
	max := constIntArg(a[0], "vpBytes bound")
	l, name := e.freshBytes(st, "bytes", max)
	st.tape = st.tape.push(TapeEntry{Kind: "bytes", Term: l, Arr: name, Max: max})
	o := e.newObject(name, types.Typ[types.Uint8])
	st.mem.set(o, ArrExpr(&ArrSym{name}))
	return one(st, &SliceV{obj: o, off: e.c64(0), len: l, cap: l, bytes: true, max: max})
}

func vpBytesCap(e *Engine, st *State, fn *ssa.Function, a []Value, s ssa.Instruction) []Outcome {
	tm := e.tm
	max := constIntArg(a[0], "vpBytesCap bound")
	extra := constIntArg(a[1], "vpBytesCap extra")
	l, name := e.freshBytes(st, "bytes", max)
	cp := tm.Var(name+"_cap", 64)
	st.assume(tm.And(tm.Ule(l, cp), tm.Ule(cp, tm.Add(l, e.c64(uint64(extra))))))
	st.tape = st.tape.push(TapeEntry{Kind: "bytes", Term: l, Arr: name, Max: max + extra, Cap: cp})
	o := e.newObject(name, types.Typ[types.Uint8])
	st.mem.set(o, ArrExpr(&ArrSym{name}))
	return one(st, &SliceV{obj: o, off: e.c64(0), len: l, cap: cp, bytes: true, max: max})
}

func vpStr(e *Engine, st *State, fn *ssa.Function, a []Value, s ssa.Instruction) []Outcome {
	max := constIntArg(a[0], "vpStr bound")
	l, name := e.freshBytes(st, "str", max)
	st.tape = st.tape.push(TapeEntry{Kind: "str", Term: l, Arr: name, Max: max})
	return one(st, &StrV{arr: &ArrSym{name}, off: e.c64(0), len: l, max: max})
}

func vpAssume(e *Engine, st *State, fn *ssa.Function, a []Value, s ssa.Instruction) []Outcome {
	c := a[0].(*Term)
	e.rep.Assumes[e.where(s)]++
	if c.IsTrue() {
		return one(st, nil)
	}
	if !e.feasible(st, c) {
		return nil
	}
	st.assume(c)
	return one(st, nil)
}

func vpAssert(e *Engine, st *State, fn *ssa.Function, a []Value, s ssa.Instruction) []Outcome {
	c := a[0].(*Term)
	id := constStrArg(a[1])
	e.rep.AssertIDs[id]++
	st.obs = st.obs.push(ObsEntry{Tag: "assert:" + id, Kind: "assert", Term: c})
	if o := idOwner(id); e.cfg.Owner != "" && o != "" && o != e.cfg.Owner {
		// stated by another property (shared harness): observed, neither checked nor assumed
		return one(st, nil)
	}
	if !e.obligation(st, c, "assert", id, s) {
		return nil
	}
	return one(st, nil)
}

func vpReach(e *Engine, st *State, fn *ssa.Function, a []Value, s ssa.Instruction) []Outcome {
	id := constStrArg(a[0])
	e.rep.Reach[id]++
	st.obs = st.obs.push(ObsEntry{Tag: id, Kind: "reach"})
	return one(st, nil)
}

func vpObserveInt(e *Engine, st *State, fn *ssa.Function, a []Value, s ssa.Instruction) []Outcome {
	st.obs = st.obs.push(ObsEntry{Tag: constStrArg(a[0]), Kind: "int", Term: a[1].(*Term)})
	return one(st, nil)
}

func vpObserveBool(e *Engine, st *State, fn *ssa.Function, a []Value, s ssa.Instruction) []Outcome {
	st.obs = st.obs.push(ObsEntry{Tag: constStrArg(a[0]), Kind: "bool", Term: a[1].(*Term)})
	return one(st, nil)
}

func vpObserveBytes(e *Engine, st *State, fn *ssa.Function, a []Value, s ssa.Instruction) []Outcome {
	sl, ok := a[1].(*SliceV)
	if !ok {
		panic(unsupported(fmt.Sprintf("vpObserveBytes of %T", a[1])))
	}
	st.obs = st.obs.push(ObsEntry{Tag: constStrArg(a[0]), Kind: "bytes", Bytes: e.sliceAsStr(st, sl)})
	return one(st, nil)
}

func vpObserveStr(e *Engine, st *State, fn *ssa.Function, a []Value, s ssa.Instruction) []Outcome {
	st.obs = st.obs.push(ObsEntry{Tag: constStrArg(a[0]), Kind: "bytes", Bytes: a[1].(*StrV)})
	return one(st, nil)
}

func vpBound(e *Engine, st *State, fn *ssa.Function, a []Value, s ssa.Instruction) []Outcome {
	name := constStrArg(a[0])
	def := constIntArg(a[1], "vpBound default")
	v := e.bound(name, def)
	e.rep.Bounds[name] = v
	return one(st, e.c64(uint64(v)))
}

func vpStrictSlice(e *Engine, st *State, fn *ssa.Function, a []Value, s ssa.Instruction) []Outcome {
	e.strictSlice = a[0].(*Term).IsTrue()
	return one(st, nil)
}

func vpPanicsOK(e *Engine, st *State, fn *ssa.Function, a []Value, s ssa.Instruction) []Outcome {
	e.panicsAreViolations = !a[0].(*Term).IsTrue()
	return one(st, nil)
}

func vpAllocLimit(e *Engine, st *State, fn *ssa.Function, a []Value, s ssa.Instruction) []Outcome {
	e.cfg.Bounds["alloc_limit"] = constIntArg(a[0], "vpAllocLimit")
	return one(st, nil)
}

func vpMetric(e *Engine, st *State, fn *ssa.Function, a []Value, s ssa.Instruction) []Outcome {
	k := "metric." + constStrArg(a[0])
	if v, ok := st.ghost[k]; ok {
		return one(st, v)
	}
	return one(st, e.c64(0))
}

func vpMetricMin(e *Engine, st *State, fn *ssa.Function, a []Value, s ssa.Instruction) []Outcome {
	k := "metricmin." + constStrArg(a[0])
	if v, ok := st.ghost[k]; ok {
		return one(st, v)
	}
	return one(st, e.c64(0))
}

func vpLazyGo(e *Engine, st *State, fn *ssa.Function, a []Value, s ssa.Instruction) []Outcome {
	c := a[0].(*Term)
	if c.IsConst() {
		st.ghost["vp.lazygo"] = c
		return one(st, nil)
	}
	// a symbolic choice: both schedules are explored
	lazy := st.clone()
	lazy.assume(c)
	lazy.ghost["vp.lazygo"] = e.tm.True
	st.assume(e.tm.Not(c))
	st.ghost["vp.lazygo"] = e.tm.False
	return []Outcome{{st: lazy}, {st: st}}
}

func vpBlocked(e *Engine, st *State, fn *ssa.Function, a []Value, s ssa.Instruction) []Outcome {
	if v, ok := st.ghost["vp.blocked"]; ok {
		return one(st, v)
	}
	return one(st, e.tm.False)
}

// vpStrN / vpBytesN: a string / byte slice of exactly n free bytes; a symbolic n is concretised
// (one path per feasible value), which keeps every offset on the path concrete.
func vpStrN(e *Engine, st *State, fn *ssa.Function, a []Value, s ssa.Instruction) []Outcome {
	n := a[0].(*Term)
	if c, ok := n.ConstVal(); ok {
		name := e.tm.FreshName("in_str")
		e.tm.DeclareArray(name)
		st.tape = st.tape.push(TapeEntry{Kind: "str", Term: e.c64(c), Arr: name, Max: int(c)})
		v := make([]*Term, c)
		for i := range v {
			v[i] = e.tm.Select(name, e.c64(uint64(i)))
		}
		return one(st, &StrV{arr: &ArrVec{v}, off: e.c64(0), len: e.c64(c), max: int(c)})
	}
	return e.forkOnLen(st, n, 300, func(st2 *State, k uint64) []Outcome {
		return vpStrN(e, st2, fn, []Value{e.c64(k)}, s)
	})
}

func vpBytesN(e *Engine, st *State, fn *ssa.Function, a []Value, s ssa.Instruction) []Outcome {
	n := a[0].(*Term)
	if c, ok := n.ConstVal(); ok {
		name := e.tm.FreshName("in_bytes")
		e.tm.DeclareArray(name)
		st.tape = st.tape.push(TapeEntry{Kind: "bytes", Term: e.c64(c), Arr: name, Max: int(c)})
		v := make([]*Term, c)
		for i := range v {
			v[i] = e.tm.Select(name, e.c64(uint64(i)))
		}
		o := e.newObject(name, types.Typ[types.Uint8])
		st.mem.set(o, ArrExpr(&ArrVec{v}))
		return one(st, &SliceV{obj: o, off: e.c64(0), len: e.c64(c), cap: e.c64(c), bytes: true, max: int(c)})
	}
	return e.forkOnLen(st, n, 300, func(st2 *State, k uint64) []Outcome {
		return vpBytesN(e, st2, fn, []Value{e.c64(k)}, s)
	})
}

// vpConstStr(n, c): the string of n copies of byte c (concrete; no tape slot).
func vpConstStr(e *Engine, st *State, fn *ssa.Function, a []Value, s ssa.Instruction) []Outcome {
	n := constIntArg(a[0], "vpConstStr length")
	c, ok := a[1].(*Term).ConstVal()
	if !ok {
		panic(unsupported("vpConstStr byte must be constant"))
	}
	v := make([]*Term, n)
	ct := e.tm.BV(c, 8)
	for i := range v {
		v[i] = ct
	}
	return one(st, &StrV{arr: &ArrVec{v}, off: e.c64(0), len: e.c64(uint64(n)), max: n})
}

// vpBytesCapN(n, extra): exactly n free bytes, capacity exactly n+extra, free bytes behind len.
func vpBytesCapN(e *Engine, st *State, fn *ssa.Function, a []Value, s ssa.Instruction) []Outcome {
	n := a[0].(*Term)
	extra := constIntArg(a[1], "vpBytesCapN extra")
	if c, ok := n.ConstVal(); ok {
		name := e.tm.FreshName("in_bytes")
		e.tm.DeclareArray(name)
		total := int(c) + extra
		st.tape = st.tape.push(TapeEntry{Kind: "bytes", Term: e.c64(c), Arr: name, Max: total, Cap: e.c64(uint64(total))})
		v := make([]*Term, total)
		for i := range v {
			v[i] = e.tm.Select(name, e.c64(uint64(i)))
		}
		o := e.newObject(name, types.Typ[types.Uint8])
		st.mem.set(o, ArrExpr(&ArrVec{v}))
		return one(st, &SliceV{obj: o, off: e.c64(0), len: e.c64(c), cap: e.c64(uint64(total)), bytes: true, max: int(c)})
	}
	return e.forkOnLen(st, n, 300, func(st2 *State, k uint64) []Outcome {
		return vpBytesCapN(e, st2, fn, []Value{e.c64(k), a[1]}, s)
	})
}

func vpAllocBytes(e *Engine, st *State, fn *ssa.Function, a []Value, s ssa.Instruction) []Outcome {
	if v, ok := st.ghost["vp.alloc"]; ok {
		return one(st, v)
	}
	return one(st, e.c64(0))
}

func (e *Engine) countAlloc(st *State, bytes *Term) {
	cur, ok := st.ghost["vp.alloc"]
	if !ok {
		cur = e.c64(0)
	}
	st.ghost["vp.alloc"] = e.tm.Add(cur.(*Term), bytes)
}

func termStr(t *Term, depth int) string {
	if t.op == OpConst {
		return fmt.Sprintf("%d", t.val)
	}
	if t.op == OpVar {
		return t.name
	}
	if depth == 0 {
		return "..."
	}
	name := opNames[t.op]
	switch t.op {
	case OpExtract:
		name = fmt.Sprintf("extract[%d:%d]", t.hi, t.lo)
	case OpZExt:
		name = fmt.Sprintf("zext%d", t.w)
	case OpSExt:
		name = fmt.Sprintf("sext%d", t.w)
	case OpSelect:
		name = "select:" + t.name
	case OpUF:
		name = t.name
	}
	s := "(" + name
	for _, a := range t.args {
		s += " " + termStr(a, depth-1)
	}
	return s + ")"
}

// vpDump(tag, bytes): development aid, prints the terms of a byte slice.
func vpDump(e *Engine, st *State, fn *ssa.Function, a []Value, s ssa.Instruction) []Outcome {
	tag := constStrArg(a[0])
	val := a[1]
	if iv, ok := val.(*IfaceV); ok {
		val = iv.val
	}
	switch v := val.(type) {
	case *SliceV:
		str := e.sliceAsStr(st, v)
		fmt.Printf("DUMP %s len=%s\n", tag, termStr(str.len, 4))
		if n, ok := str.len.ConstVal(); ok {
			for i := uint64(0); i < n && i < 24; i++ {
				fmt.Printf("   [%d] %s\n", i, termStr(e.arrRead(str.arr, e.tm.Add(str.off, e.c64(i))), 6))
			}
		}
	case *Term:
		fmt.Printf("DUMP %s %s\n", tag, termStr(v, 8))
	}
	return one(st, nil)
}

// vpIntC(lo, hi): like vpInt, but the value is concretised at once (one path per value).
func vpIntC(e *Engine, st *State, fn *ssa.Function, a []Value, s ssa.Instruction) []Outcome {
	lo, ok1 := a[0].(*Term).SConstVal()
	hi, ok2 := a[1].(*Term).SConstVal()
	if !ok1 || !ok2 {
		panic(unsupported("vpIntC bounds must be concrete"))
	}
	if hi < lo {
		return nil
	}
	t := e.tm.FreshVar("in_i", 64)
	st.tape = st.tape.push(TapeEntry{Kind: "int", Term: t})
	var outs []Outcome
	for v := lo; v <= hi; v++ {
		s2 := st
		if v < hi {
			s2 = st.clone()
		}
		c := e.c64(uint64(v))
		s2.assume(e.tm.Eq(t, c))
		if hi > lo {
			s2.splits++
		}
		outs = append(outs, Outcome{st: s2, ret: c})
	}
	return outs
}

// vpGo(f): natively `go f()`.  In the engine f runs right here to completion; a select or
// receive that would block forever ends f (the goroutine simply stays parked) instead of ending
// the path, so a server loop can be driven for the events the harness has queued.
func vpGo(e *Engine, st *State, fn *ssa.Function, a []Value, s ssa.Instruction) []Outcome {
	f := a[0].(*FuncV)
	if f.fn == nil {
		return one(st, nil)
	}
	prev := st.ghost["vp.parkreturns"]
	st.ghost["vp.parkreturns"] = e.tm.True
	outs := e.callFn(st, f.fn, nil, f.bind, s)
	for i := range outs {
		outs[i].ret = nil
		delete(outs[i].st.ghost, "vp.parked")
		if prev == nil {
			delete(outs[i].st.ghost, "vp.parkreturns")
		} else {
			outs[i].st.ghost["vp.parkreturns"] = prev
		}
	}
	return outs
}

// vpEngineOption(name, v): the harness selects an exploration option of the engine for itself
// (merge policy, limits); options change cost, never the meaning of a verdict.
func vpEngineOption(e *Engine, st *State, fn *ssa.Function, a []Value, s ssa.Instruction) []Outcome {
	name, ok := argString(a[0])
	v, ok2 := a[1].(*Term).ConstVal()
	if !ok || !ok2 {
		panic(unsupported("vpEngineOption needs constants"))
	}
	e.harnessOpts[name] = int(v)
	e.rep.Bounds[name] = int(v)
	return one(st, nil)
}
