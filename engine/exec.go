package main

// SSA instruction semantics.

import (
	"fmt"
	"go/token"
	"go/types"
	"os"

	"golang.org/x/tools/go/ssa"
)

func (e *Engine) get(fr *Frame, v ssa.Value) Value {
	switch x := v.(type) {
	case *ssa.Const:
		return e.constValue(x)
	case *ssa.Global:
		return &PtrV{obj: e.globalObj(x)}
	case *ssa.Function:
		return &FuncV{fn: x}
	case *ssa.Builtin:
		return &FuncV{name: "builtin:" + x.Name()}
	}
	i, ok := fr.info.idx[v]
	if !ok {
		panic(unsupported(fmt.Sprintf("unknown ssa value %s (%T)", v.Name(), v)))
	}
	r := fr.locals[i]
	if r == nil {
		panic(unsupported(fmt.Sprintf("use of unset ssa value %s in %s", v.Name(), fr.fn)))
	}
	return r
}

func (e *Engine) set(fr *Frame, v ssa.Value, val Value) {
	fr.locals[fr.info.idx[v]] = val
}

// resolved returns the value of v with any top-level ChoiceV resolved by forking.
func (e *Engine) resolved(fr *Frame, v ssa.Value) Value {
	val := e.get(fr, v)
	if ch, ok := val.(*ChoiceV); ok {
		if _, isLocal := fr.info.idx[v]; !isLocal {
			panic(unsupported("choice value in non-local"))
		}
		panic(forkReq{target: v, alts: ch.alts})
	}
	return val
}

func (e *Engine) term(fr *Frame, v ssa.Value) *Term {
	val := e.get(fr, v)
	t, ok := val.(*Term)
	if !ok {
		panic(unsupported(fmt.Sprintf("expected scalar for %s, got %s", v.Name(), describe(val))))
	}
	return t
}

// to64 converts an integer term of Go type t to a 64-bit term.
func (e *Engine) to64(x *Term, t types.Type) *Term {
	_, signed, _ := intWidth(t)
	return e.tm.Resize(x, 64, signed)
}

func (e *Engine) index64(fr *Frame, v ssa.Value) *Term {
	return e.to64(e.term(fr, v), v.Type())
}

// concretize forks on the feasible concrete values of an integer-valued local.
func (e *Engine) concretize(fr *Frame, st *State, v ssa.Value, limit int) uint64 {
	t := e.term(fr, v)
	if c, ok := t.ConstVal(); ok {
		return c
	}
	if _, isLocal := fr.info.idx[v]; !isLocal {
		panic(unsupported("concretize non-local"))
	}
	vals := e.enumerate(st, t, limit)
	var alts []Alt
	for _, c := range vals {
		ct := e.tm.BV(c, t.w)
		alts = append(alts, Alt{cond: e.tm.Eq(t, ct), v: ct})
	}
	panic(forkReq{target: v, alts: alts, split: true})
}

// enumerate lists the feasible values of t under the path condition (up to limit).
// Values 0..limit are probed one by one (a check-sat each, no model construction); if t can
// exceed the probed range the concretisation limit is reported.
func (e *Engine) enumerate(st *State, t *Term, limit int) []uint64 {
	e.sync(st.pc)
	tm := e.tm
	var vals []uint64
	lo := 0
	if h, ok := e.hints[t]; ok {
		// range recorded when the input was created (vpInt)
		if int(h[1]) < limit {
			limit = int(h[1])
		}
		lo = int(h[0])
	} else if ub, ok := tm.ubound(t); ok && ub < uint64(limit) {
		limit = int(ub)
	}
	for k := lo; k <= limit; k++ {
		r := e.solver.CheckWith(tm.Eq(t, tm.BV(uint64(k), t.w)))
		if r == Unknown {
			e.rep.Unknowns++
		}
		if r != Unsat {
			vals = append(vals, uint64(k))
		}
	}
	if _, hinted := e.hints[t]; hinted {
		return vals
	}
	if ub, ok := tm.ubound(t); ok && ub <= uint64(limit) {
		return vals
	}
	if e.solver.CheckWith(tm.Ult(tm.BV(uint64(limit), t.w), t)) != Unsat {
		e.rep.UnwindHits++
		panic(unsupported(fmt.Sprintf("concretisation limit %d exceeded", limit)))
	}
	return vals
}

func (e *Engine) enterBlock(fr *Frame, st *State, to *ssa.BasicBlock) {
	from := fr.block
	// loop accounting: an edge to a dominator is a back edge.  Iterations decided by concrete
	// conditions only count against the step limit; iterations taken on a symbolic decision
	// count against the unwinding limit.
	if to.Dominates(from) {
		if fr.loops == nil {
			fr.loops = map[int]int{}
		}
		if fr.symIter {
			fr.loops[to.Index]++
			fr.symIter = false
		}
		if fr.loops[to.Index] > e.cfg.MaxLoop {
			e.rep.UnwindHits++
			e.note("unwinding limit reached at " + fr.fn.String())
			panic(pathEnd{"unwind"})
		}
	}
	// phis are evaluated simultaneously
	pi := -1
	for i, p := range to.Preds {
		if p == from {
			pi = i
			break
		}
	}
	var vals []Value
	var phis []*ssa.Phi
	for _, in := range to.Instrs {
		ph, ok := in.(*ssa.Phi)
		if !ok {
			break
		}
		phis = append(phis, ph)
		vals = append(vals, e.get(fr, ph.Edges[pi]))
	}
	for i, ph := range phis {
		e.set(fr, ph, vals[i])
	}
	fr.prev = from
	fr.block = to
	fr.ip = len(phis)
}

func (e *Engine) step(fr *Frame, st *State) stepResult {
	if fr.ip >= len(fr.block.Instrs) {
		panic(unsupported("fell off block"))
	}
	instr := fr.block.Instrs[fr.ip]
	if os.Getenv("VP_SLOW") != "" {
		e.curWhere = e.where(instr)
	}
	if e.cfg.Trace {
		fmt.Printf("%*s%s: %s\n", e.depth*2, "", fr.fn.Name(), instr.String())
	}
	tm := e.tm
	switch in := instr.(type) {
	case *ssa.DebugRef:
	case *ssa.Alloc:
		et := in.Type().(*types.Pointer).Elem()
		o := e.newObject(in.Comment, et)
		st.mem.set(o, e.valueToContent(e.zero(et)))
		e.set(fr, in, &PtrV{obj: o})
	case *ssa.UnOp:
		e.set(fr, in, e.unop(fr, st, in))
	case *ssa.BinOp:
		e.set(fr, in, e.binop(fr, st, in))
	case *ssa.Store:
		p := e.resolved(fr, in.Addr).(*PtrV)
		if p.IsNil() {
			e.panicObligation(st, tm.False, "nil-store", in)
		}
		e.storePtr(st, p, e.get(fr, in.Val))
	case *ssa.FieldAddr:
		p := e.resolved(fr, in.X).(*PtrV)
		if p.IsNil() {
			e.panicObligation(st, tm.False, "nil-deref", in)
		}
		np := &PtrV{obj: p.obj, path: append(append([]PathElem(nil), p.path...), PathElem{field: in.Field})}
		e.set(fr, in, np)
	case *ssa.Field:
		x := e.resolved(fr, in.X)
		sv, ok := x.(*StructV)
		if !ok {
			panic(unsupported(fmt.Sprintf("Field of %T", x)))
		}
		e.set(fr, in, sv.f[in.Field])
	case *ssa.IndexAddr:
		e.set(fr, in, e.indexAddr(fr, st, in))
	case *ssa.Index:
		e.set(fr, in, e.indexVal(fr, st, in))
	case *ssa.Lookup:
		e.set(fr, in, e.lookup(fr, st, in))
	case *ssa.Slice:
		e.set(fr, in, e.sliceOp(fr, st, in))
	case *ssa.MakeSlice:
		e.set(fr, in, e.makeSlice(fr, st, in))
	case *ssa.MakeMap:
		o := e.newObject("map", in.Type())
		st.mem.set(o, &MapContent{})
		e.set(fr, in, &MapV{obj: o})
	case *ssa.MapUpdate:
		m := e.resolved(fr, in.Map).(*MapV)
		if m.obj == nil {
			e.panicObligation(st, tm.False, "nil-map-write", in)
		}
		e.mapUpdate(st, m, e.get(fr, in.Key), e.get(fr, in.Value))
	case *ssa.MakeChan:
		o := e.newObject("chan", in.Type())
		st.mem.set(o, &CellsV{})
		e.set(fr, in, &ChanV{obj: o})
	case *ssa.MakeClosure:
		var bind []Value
		for _, b := range in.Bindings {
			bind = append(bind, e.get(fr, b))
		}
		e.set(fr, in, &FuncV{fn: in.Fn.(*ssa.Function), bind: bind})
	case *ssa.MakeInterface:
		e.set(fr, in, &IfaceV{typ: in.X.Type(), val: e.get(fr, in.X)})
	case *ssa.ChangeInterface:
		e.set(fr, in, e.get(fr, in.X))
	case *ssa.ChangeType:
		e.set(fr, in, e.get(fr, in.X))
	case *ssa.Convert:
		e.set(fr, in, e.convert(fr, st, in))
	case *ssa.SliceToArrayPointer:
		s := e.resolved(fr, in.X).(*SliceV)
		if c, ok := s.off.ConstVal(); !ok || c != 0 {
			panic(unsupported("SliceToArrayPointer with offset"))
		}
		e.set(fr, in, &PtrV{obj: s.obj})
	case *ssa.TypeAssert:
		e.set(fr, in, e.typeAssert(fr, st, in))
	case *ssa.Extract:
		t := e.get(fr, in.Tuple).(*TupleV)
		e.set(fr, in, t.v[in.Index])
	case *ssa.Phi:
		panic(unsupported("phi in the middle of a block"))
	case *ssa.Jump:
		e.enterBlock(fr, st, fr.block.Succs[0])
		return stepResult{kind: stepNext}
	case *ssa.If:
		c := e.term(fr, in.Cond)
		tb, fb := fr.block.Succs[0], fr.block.Succs[1]
		if c.IsTrue() {
			e.enterBlock(fr, st, tb)
			return stepResult{kind: stepNext}
		}
		if c.IsFalse() {
			e.enterBlock(fr, st, fb)
			return stepResult{kind: stepNext}
		}
		lazy := !isLoopHeader(fr.block)
		return stepResult{kind: stepBranch, branches: []branch{
			{cond: c, lazy: lazy, apply: func(f *Frame, s *State) { f.symIter = !lazy; e.enterBlock(f, s, tb) }},
			{cond: tm.Not(c), lazy: lazy, apply: func(f *Frame, s *State) { f.symIter = !lazy; e.enterBlock(f, s, fb) }},
		}}
	case *ssa.Return:
		switch len(in.Results) {
		case 0:
			fr.ret = nil
		case 1:
			fr.ret = e.get(fr, in.Results[0])
		default:
			vs := make([]Value, len(in.Results))
			for i, r := range in.Results {
				vs[i] = e.get(fr, r)
			}
			fr.ret = &TupleV{vs}
		}
		return stepResult{kind: stepReturn}
	case *ssa.Panic:
		x := e.get(fr, in.X)
		msg := "explicit panic"
		if iv, ok := x.(*IfaceV); ok {
			if s, ok := iv.val.(*StrV); ok {
				if cs, ok := concreteString(s); ok {
					msg = "explicit panic: " + cs
				}
			}
		}
		e.panicObligation(st, tm.False, msg, in)
		panic(pathEnd{"panic"})
	case *ssa.Call:
		return e.callInstr(fr, st, in, in.Common(), in)
	case *ssa.Defer:
		fr.defers = append(fr.defers, e.prepareCall(fr, st, in.Common()))
	case *ssa.RunDefers:
		if len(fr.defers) == 0 {
			break
		}
		d := fr.defers[len(fr.defers)-1]
		fr.defers = fr.defers[:len(fr.defers)-1]
		res := e.invokePrepared(fr, st, d, nil, in)
		// stay on RunDefers until the list is empty
		if res.kind == stepNext {
			return stepResult{kind: stepNext}
		}
		return res
	case *ssa.Go:
		d := e.prepareCall(fr, st, in.Common())
		return e.spawn(fr, st, d, in)
	case *ssa.Range:
		e.set(fr, in, e.rangeInit(fr, st, in))
	case *ssa.Next:
		return e.rangeNext(fr, st, in)
	case *ssa.Select:
		return e.selectOp(fr, st, in)
	case *ssa.Send:
		e.chanSend(fr, st, in)
	default:
		panic(unsupported(fmt.Sprintf("instruction %T", instr)))
	}
	fr.ip++
	return stepResult{kind: stepNext}
}

func (e *Engine) loadPtr(st *State, p *PtrV) Value {
	c, ok := st.mem.get(p.obj)
	if !ok {
		if c, ok = e.globalDefault(p.obj); !ok {
			panic(unsupported("load from unknown object " + p.obj.String()))
		}
	}
	if len(p.path) == 0 {
		return e.contentToValue(p.obj, c)
	}
	return e.loadPath(c, p.path)
}

func (e *Engine) storePtr(st *State, p *PtrV, v Value) {
	c, ok := st.mem.get(p.obj)
	if !ok {
		if c, ok = e.globalDefault(p.obj); !ok {
			panic(unsupported("store to unknown object " + p.obj.String()))
		}
	}
	if len(p.path) == 0 {
		st.mem.set(p.obj, e.valueToContent(v))
		return
	}
	st.mem.set(p.obj, e.storePath(c, p.path, v))
}

func (e *Engine) unop(fr *Frame, st *State, in *ssa.UnOp) Value {
	tm := e.tm
	switch in.Op {
	case token.MUL:
		p, ok := e.resolved(fr, in.X).(*PtrV)
		if !ok {
			panic(unsupported("load through non-pointer"))
		}
		if p.IsNil() {
			e.panicObligation(st, tm.False, "nil-deref", in)
		}
		return e.loadPtr(st, p)
	case token.NOT:
		return tm.Not(e.term(fr, in.X))
	case token.SUB:
		x := e.get(fr, in.X)
		if t, ok := x.(*Term); ok {
			return tm.Neg(t)
		}
		panic(unsupported("negation of non-int"))
	case token.XOR:
		return tm.BNot(e.term(fr, in.X))
	case token.ARROW:
		return e.chanRecv(fr, st, in)
	}
	panic(unsupported("unop " + in.Op.String()))
}

func (e *Engine) binop(fr *Frame, st *State, in *ssa.BinOp) Value {
	tm := e.tm
	xt := in.X.Type()
	x := e.get(fr, in.X)
	y := e.get(fr, in.Y)
	switch in.Op {
	case token.EQL, token.NEQ:
		var r *Term
		// comparison with nil
		if c, ok := in.Y.(*ssa.Const); ok && c.Value == nil && !isBasic(xt) {
			r = e.isNilTerm(x)
		} else if c, ok := in.X.(*ssa.Const); ok && c.Value == nil && !isBasic(in.Y.Type()) {
			r = e.isNilTerm(y)
		} else {
			r = e.valuesEqual(x, y)
		}
		if in.Op == token.NEQ {
			r = tm.Not(r)
		}
		return r
	}
	if isStringType(xt) {
		a, b := x.(*StrV), y.(*StrV)
		switch in.Op {
		case token.ADD:
			return e.strConcat(a, b)
		case token.LSS, token.LEQ, token.GTR, token.GEQ:
			as, ok1 := concreteString(a)
			bs, ok2 := concreteString(b)
			if ok1 && ok2 {
				switch in.Op {
				case token.LSS:
					return tm.Bool(as < bs)
				case token.LEQ:
					return tm.Bool(as <= bs)
				case token.GTR:
					return tm.Bool(as > bs)
				default:
					return tm.Bool(as >= bs)
				}
			}
			panic(unsupported("ordered comparison of symbolic strings"))
		}
		panic(unsupported("string binop " + in.Op.String()))
	}
	if isFloatType(xt) {
		return &OpaqueV{kind: "float"}
	}
	a, ok1 := x.(*Term)
	b, ok2 := y.(*Term)
	if !ok1 || !ok2 {
		panic(unsupported(fmt.Sprintf("binop %s on %T,%T", in.Op, x, y)))
	}
	_, signed, _ := intWidth(xt)
	switch in.Op {
	case token.ADD:
		return tm.Add(a, b)
	case token.SUB:
		return tm.Sub(a, b)
	case token.MUL:
		return tm.Mul(a, b)
	case token.QUO, token.REM:
		e.panicObligation(st, tm.Ne(b, tm.BV(0, b.w)), "divide-by-zero", in)
		if in.Op == token.QUO {
			if signed {
				return tm.SDiv(a, b)
			}
			return tm.UDiv(a, b)
		}
		if signed {
			return tm.SRem(a, b)
		}
		return tm.URem(a, b)
	case token.AND:
		return tm.BAnd(a, b)
	case token.OR:
		return tm.BOr(a, b)
	case token.XOR:
		return tm.BXor(a, b)
	case token.AND_NOT:
		return tm.BAnd(a, tm.BNot(b))
	case token.SHL, token.SHR:
		// bring the shift count to the operand width
		var cnt *Term
		var big *Term
		if b.w > a.w {
			big = tm.Ule(tm.BV(uint64(a.w), b.w), b)
			cnt = tm.Extract(b, a.w-1, 0)
		} else {
			cnt = tm.ZExt(b, a.w)
			big = tm.Ule(tm.BV(uint64(a.w), a.w), cnt)
		}
		var sh, over *Term
		switch {
		case in.Op == token.SHL:
			sh, over = tm.Shl(a, cnt), tm.BV(0, a.w)
		case signed:
			sh = tm.AShr(a, cnt)
			over = tm.AShr(a, tm.BV(uint64(a.w-1), a.w))
		default:
			sh, over = tm.LShr(a, cnt), tm.BV(0, a.w)
		}
		return tm.Ite(big, over, sh)
	case token.LSS:
		if signed {
			return tm.Slt(a, b)
		}
		return tm.Ult(a, b)
	case token.LEQ:
		if signed {
			return tm.Sle(a, b)
		}
		return tm.Ule(a, b)
	case token.GTR:
		if signed {
			return tm.Slt(b, a)
		}
		return tm.Ult(b, a)
	case token.GEQ:
		if signed {
			return tm.Sle(b, a)
		}
		return tm.Ule(b, a)
	}
	panic(unsupported("binop " + in.Op.String()))
}

func isBasic(t types.Type) bool {
	_, ok := t.Underlying().(*types.Basic)
	return ok
}

func (e *Engine) strConcat(a, b *StrV) *StrV {
	tm := e.tm
	if c, ok := a.len.ConstVal(); ok && c == 0 {
		return b
	}
	if c, ok := b.len.ConstVal(); ok && c == 0 {
		return a
	}
	arr := e.arrCopy(emptyArr, e.c64(0), a.arr, a.off, a.len)
	arr = e.arrCopy(arr, a.len, b.arr, b.off, b.len)
	mx := -1
	if a.max >= 0 && b.max >= 0 {
		mx = a.max + b.max
	}
	return &StrV{arr: arr, off: e.c64(0), len: tm.Add(a.len, b.len), max: mx}
}

func (e *Engine) convert(fr *Frame, st *State, in *ssa.Convert) Value {
	tm := e.tm
	from, to := in.X.Type(), in.Type()
	x := e.get(fr, in.X)
	if wf, sf, ok := intWidth(from); ok {
		_ = wf
		if wt, _, ok := intWidth(to); ok {
			return tm.Resize(x.(*Term), wt, sf)
		}
		if isStringType(to) {
			// string(rune)
			if c, ok := x.(*Term).ConstVal(); ok {
				return e.mkStr(string(rune(c)))
			}
			t := x.(*Term)
			// ASCII only
			if !e.mustHold(st, tm.Ult(tm.Resize(t, 64, false), e.c64(128))) {
				panic(unsupported("string(rune) of symbolic non-ASCII value"))
			}
			return &StrV{arr: &ArrVec{[]*Term{tm.Resize(t, 8, false)}}, off: e.c64(0), len: e.c64(1), max: 1}
		}
		if isFloatType(to) {
			return &OpaqueV{kind: "float"}
		}
	}
	if isFloatType(from) {
		if w, _, ok := intWidth(to); ok {
			return tm.FreshVar("f2i", w)
		}
		if isFloatType(to) {
			return x
		}
	}
	if isStringType(from) {
		if sl, ok := to.Underlying().(*types.Slice); ok && isByteType(sl.Elem()) {
			s := x.(*StrV)
			o := e.newObject("bytes(str)", sl.Elem())
			var arr ArrExpr
			if c, ok := s.off.ConstVal(); ok && c == 0 {
				arr = s.arr
			} else {
				arr = e.arrCopy(emptyArr, e.c64(0), s.arr, s.off, s.len)
			}
			st.mem.set(o, arr)
			return &SliceV{obj: o, off: e.c64(0), len: s.len, cap: s.len, bytes: true, max: s.max}
		}
		if isStringType(to) {
			return x
		}
	}
	if sl, ok := from.Underlying().(*types.Slice); ok && isByteType(sl.Elem()) && isStringType(to) {
		s := e.resolved(fr, in.X).(*SliceV)
		if s.obj == nil {
			return e.mkStr("")
		}
		c, _ := st.mem.get(s.obj)
		return &StrV{arr: c.(ArrExpr), off: s.off, len: s.len, max: s.max}
	}
	if _, ok := from.Underlying().(*types.Pointer); ok {
		return x // unsafe.Pointer conversions
	}
	if b, ok := from.Underlying().(*types.Basic); ok && b.Kind() == types.UnsafePointer {
		return x
	}
	panic(unsupported(fmt.Sprintf("convert %s -> %s", typeName(from), typeName(to))))
}

func (e *Engine) indexAddr(fr *Frame, st *State, in *ssa.IndexAddr) Value {
	tm := e.tm
	base := e.resolved(fr, in.X)
	idx := e.index64(fr, in.Index)
	switch b := base.(type) {
	case *SliceV:
		inb := tm.Ult(idx, b.len) // unsigned compare covers negative indices
		e.panicObligation(st, inb, "index-out-of-range", in)
		if b.bytes {
			return &PtrV{obj: b.obj, path: []PathElem{{idx: tm.Add(b.off, idx)}}}
		}
		off, ok := b.off.ConstVal()
		if !ok {
			panic(unsupported("cell slice with symbolic offset"))
		}
		ci := e.concretize(fr, st, in.Index, 64)
		return &PtrV{obj: b.obj, path: []PathElem{{field: int(off + ci)}}}
	case *PtrV:
		if b.IsNil() {
			e.panicObligation(st, tm.False, "nil-deref", in)
		}
		at := in.X.Type().Underlying().(*types.Pointer).Elem().Underlying().(*types.Array)
		inb := tm.Ult(idx, e.c64(uint64(at.Len())))
		e.panicObligation(st, inb, "index-out-of-range", in)
		path := append([]PathElem(nil), b.path...)
		if isByteType(at.Elem()) {
			path = append(path, PathElem{idx: idx})
		} else {
			ci := e.concretize(fr, st, in.Index, 64)
			path = append(path, PathElem{field: int(ci)})
		}
		return &PtrV{obj: b.obj, path: path}
	}
	panic(unsupported(fmt.Sprintf("IndexAddr on %T", base)))
}

func (e *Engine) indexVal(fr *Frame, st *State, in *ssa.Index) Value {
	tm := e.tm
	x := e.resolved(fr, in.X)
	idx := e.index64(fr, in.Index)
	switch b := x.(type) {
	case *StrV:
		e.panicObligation(st, tm.Ult(idx, b.len), "index-out-of-range", in)
		return e.arrRead(b.arr, tm.Add(b.off, idx))
	case *BytesArrV:
		e.panicObligation(st, tm.Ult(idx, e.c64(uint64(b.n))), "index-out-of-range", in)
		return e.arrRead(b.arr, idx)
	case *CellsV:
		e.panicObligation(st, tm.Ult(idx, e.c64(uint64(len(b.c)))), "index-out-of-range", in)
		ci := e.concretize(fr, st, in.Index, 64)
		return b.c[ci]
	}
	panic(unsupported(fmt.Sprintf("Index on %T", x)))
}

func (e *Engine) lookup(fr *Frame, st *State, in *ssa.Lookup) Value {
	tm := e.tm
	x := e.resolved(fr, in.X)
	switch b := x.(type) {
	case *StrV:
		idx := e.index64(fr, in.Index)
		e.panicObligation(st, tm.Ult(idx, b.len), "index-out-of-range", in)
		return e.arrRead(b.arr, tm.Add(b.off, idx))
	case *MapV:
		mt := in.X.Type().Underlying().(*types.Map)
		val, ok := e.mapLookup(st, b, e.get(fr, in.Index), mt.Elem())
		if in.CommaOk {
			return &TupleV{[]Value{val, ok}}
		}
		return val
	}
	panic(unsupported(fmt.Sprintf("Lookup on %T", x)))
}

func (e *Engine) sliceOp(fr *Frame, st *State, in *ssa.Slice) Value {
	tm := e.tm
	x := e.resolved(fr, in.X)
	opt := func(v ssa.Value) *Term {
		if v == nil {
			return nil
		}
		return e.index64(fr, v)
	}
	// case split: symbolic bounds on a short sequence of concrete length are concretised, so that
	// every offset behind this point is concrete on the path
	if lim := e.bound("slice_split", 64); lim > 0 {
		var baseLen *Term
		switch b := x.(type) {
		case *StrV:
			baseLen = b.len
		case *SliceV:
			if b.bytes {
				baseLen = b.cap
			}
		}
		if baseLen != nil {
			if c, ok := baseLen.ConstVal(); ok && c <= uint64(lim) {
				for _, bv := range []ssa.Value{in.Low, in.High} {
					if bv == nil {
						continue
					}
					if _, isConst := e.term(fr, bv).ConstVal(); !isConst {
						if _, isLocal := fr.info.idx[bv]; isLocal {
							// values above the length panic anyway; the panic obligation is decided first
							t64 := e.index64(fr, bv)
							e.panicObligation(st, tm.Ule(t64, baseLen), "slice-bounds", in)
							e.hints[e.term(fr, bv)] = [2]uint64{0, c} // established by the obligation above
							e.concretize(fr, st, bv, int(c))
						}
					}
				}
			}
		}
	}
	lo, hi, mx := opt(in.Low), opt(in.High), opt(in.Max)
	if lo == nil {
		lo = e.c64(0)
	}
	switch b := x.(type) {
	case *StrV:
		if hi == nil {
			hi = b.len
		}
		ok := tm.And(tm.Ule(lo, hi), tm.Ule(hi, b.len))
		e.panicObligation(st, ok, "slice-bounds", in)
		return &StrV{arr: b.arr, off: tm.Add(b.off, lo), len: tm.Sub(hi, lo), max: b.max}
	case *SliceV:
		if hi == nil {
			hi = b.len
		}
		limit := b.cap
		if e.strictSlice {
			limit = b.len
		}
		var ok *Term
		if mx != nil {
			ok = tm.And(tm.Ule(lo, hi), tm.Ule(hi, mx), tm.Ule(mx, limit))
		} else {
			ok = tm.And(tm.Ule(lo, hi), tm.Ule(hi, limit))
		}
		e.panicObligation(st, ok, "slice-bounds", in)
		if b.obj == nil {
			return b
		}
		ncap := tm.Sub(b.cap, lo)
		if mx != nil {
			ncap = tm.Sub(mx, lo)
		}
		nm := b.max
		if c, ok := tm.Sub(hi, lo).ConstVal(); ok {
			nm = int(c)
		}
		return &SliceV{obj: b.obj, off: tm.Add(b.off, lo), len: tm.Sub(hi, lo), cap: ncap, bytes: b.bytes, max: nm}
	case *PtrV:
		if b.IsNil() {
			e.panicObligation(st, tm.False, "nil-deref", in)
		}
		at := in.X.Type().Underlying().(*types.Pointer).Elem().Underlying().(*types.Array)
		n := e.c64(uint64(at.Len()))
		if hi == nil {
			hi = n
		}
		ok := tm.And(tm.Ule(lo, hi), tm.Ule(hi, n))
		e.panicObligation(st, ok, "slice-bounds", in)
		isB := isByteType(at.Elem())
		if len(b.path) != 0 {
			panic(unsupported("slice of array nested in an object"))
		}
		nm := int(at.Len())
		return &SliceV{obj: b.obj, off: lo, len: tm.Sub(hi, lo), cap: tm.Sub(n, lo), bytes: isB, max: nm}
	}
	panic(unsupported(fmt.Sprintf("Slice on %T", x)))
}

func (e *Engine) makeSlice(fr *Frame, st *State, in *ssa.MakeSlice) Value {
	tm := e.tm
	st_ := in.Type().Underlying().(*types.Slice)
	ln := e.index64(fr, in.Len)
	cp := e.index64(fr, in.Cap)
	ok := tm.And(tm.Sle(e.c64(0), ln), tm.Sle(ln, cp))
	e.panicObligation(st, ok, "makeslice-len-out-of-range", in)
	e.allocLog = append(e.allocLog, cp)
	if hook := e.bound("alloc_limit", 0); hook > 0 {
		e.panicObligation(st, tm.Ule(cp, e.c64(uint64(hook))), "allocation-above-limit", in)
	}
	esz := uint64(e.ld.sizes.Sizeof(st_.Elem()))
	e.countAlloc(st, tm.Mul(cp, e.c64(esz)))
	o := e.newObject("make", st_.Elem())
	if isByteType(st_.Elem()) {
		st.mem.set(o, ArrExpr(emptyArr))
		mx := -1
		if c, ok := ln.ConstVal(); ok {
			mx = int(c)
		}
		return &SliceV{obj: o, off: e.c64(0), len: ln, cap: cp, bytes: true, max: mx}
	}
	n := e.concretize(fr, st, in.Len, 300)
	cells := make([]Value, n)
	z := e.zero(st_.Elem())
	for i := range cells {
		cells[i] = z
	}
	st.mem.set(o, &CellsV{cells})
	return &SliceV{obj: o, off: e.c64(0), len: e.c64(n), cap: cp, max: int(n)}
}

func (e *Engine) typeAssert(fr *Frame, st *State, in *ssa.TypeAssert) Value {
	tm := e.tm
	x := e.resolved(fr, in.X)
	iv, ok := x.(*IfaceV)
	if !ok {
		panic(unsupported(fmt.Sprintf("TypeAssert on %T", x)))
	}
	var okb bool
	var res Value
	if iv.typ != nil {
		if it, isI := in.AssertedType.Underlying().(*types.Interface); isI {
			okb = types.Implements(iv.typ, it)
			if !okb {
				// pointer receiver method sets
				okb = types.Implements(types.NewPointer(iv.typ), it) && false
			}
			res = iv
		} else {
			okb = types.Identical(iv.typ, in.AssertedType)
			res = iv.val
		}
	}
	if in.CommaOk {
		if !okb {
			res = e.zero(in.AssertedType)
		}
		return &TupleV{[]Value{res, tm.Bool(okb)}}
	}
	if !okb {
		e.panicObligation(st, tm.False, "type-assertion", in)
		panic(pathEnd{"type assertion"})
	}
	return res
}

// isLoopHeader: the block is the target of a back edge.
func isLoopHeader(b *ssa.BasicBlock) bool {
	for _, p := range b.Preds {
		if b.Dominates(p) {
			return true
		}
	}
	return false
}
