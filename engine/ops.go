package main

// Value-level helpers: zero values, constants, path load/store, equality, merging.

import (
	"fmt"
	"go/constant"
	"go/types"

	"golang.org/x/tools/go/ssa"
)

// BytesArrV is a value of type [N]byte.
type BytesArrV struct {
	arr ArrExpr
	n   int
}

func (e *Engine) newObject(name string, t types.Type) *Object {
	e.nextObj++
	return &Object{id: e.nextObj, name: name, typ: t}
}

func (e *Engine) zero(t types.Type) Value {
	if n, ok := t.(*types.Named); ok && n.Obj().Pkg() != nil && n.Obj().Pkg().Path() == "time" && n.Obj().Name() == "Time" {
		return &OpaqueV{kind: "time", data: e.c64(0)}
	}
	switch u := t.Underlying().(type) {
	case *types.Basic:
		if isBoolType(t) {
			return e.tm.False
		}
		if w, _, ok := intWidth(t); ok {
			return e.tm.BV(0, w)
		}
		if isStringType(t) {
			return e.mkStr("")
		}
		if isFloatType(t) {
			return &OpaqueV{kind: "float", data: float64(0)}
		}
		if u.Kind() == types.UnsafePointer {
			return &PtrV{}
		}
		if u.Kind() == types.UntypedNil {
			return &IfaceV{}
		}
	case *types.Pointer:
		return &PtrV{}
	case *types.Slice:
		return &SliceV{off: e.c64(0), len: e.c64(0), cap: e.c64(0), bytes: isByteType(u.Elem()), max: 0}
	case *types.Map:
		return &MapV{}
	case *types.Interface:
		return &IfaceV{}
	case *types.Signature:
		return &FuncV{}
	case *types.Chan:
		return &ChanV{}
	case *types.Struct:
		f := make([]Value, u.NumFields())
		for i := range f {
			f[i] = e.zero(u.Field(i).Type())
		}
		return &StructV{f}
	case *types.Array:
		if isByteType(u.Elem()) {
			n := int(u.Len())
			v := make([]*Term, n)
			for i := range v {
				v[i] = e.tm.BV(0, 8)
			}
			return &BytesArrV{arr: &ArrVec{v}, n: n}
		}
		c := make([]Value, u.Len())
		for i := range c {
			c[i] = e.zero(u.Elem())
		}
		return &CellsV{c}
	case *types.Tuple:
		v := make([]Value, u.Len())
		for i := range v {
			v[i] = e.zero(u.At(i).Type())
		}
		return &TupleV{v}
	}
	panic(unsupported("zero value of " + typeName(t)))
}

func (e *Engine) constValue(c *ssa.Const) Value {
	t := c.Type()
	if c.Value == nil {
		return e.zero(t)
	}
	if isBoolType(t) {
		return e.tm.Bool(constant.BoolVal(c.Value))
	}
	if w, _, ok := intWidth(t); ok {
		if i, ok := constant.Int64Val(constant.ToInt(c.Value)); ok {
			return e.tm.BV(uint64(i), w)
		}
		u, _ := constant.Uint64Val(constant.ToInt(c.Value))
		return e.tm.BV(u, w)
	}
	if isStringType(t) {
		return e.mkStr(constant.StringVal(c.Value))
	}
	if isFloatType(t) {
		f, _ := constant.Float64Val(c.Value)
		return &OpaqueV{kind: "float", data: f}
	}
	panic(unsupported("constant of type " + typeName(t)))
}

// wrapContent converts object content to a loadable value.
func (e *Engine) contentToValue(o *Object, c Value) Value {
	if a, ok := c.(ArrExpr); ok {
		n := -1
		if at, ok := o.typ.Underlying().(*types.Array); ok {
			n = int(at.Len())
		}
		return &BytesArrV{arr: a, n: n}
	}
	return c
}

func (e *Engine) valueToContent(v Value) Value {
	if b, ok := v.(*BytesArrV); ok {
		return b.arr
	}
	return v
}

func (e *Engine) loadPath(v Value, path []PathElem) Value {
	for i, pe := range path {
		switch x := v.(type) {
		case *StructV:
			v = x.f[pe.field]
		case *CellsV:
			if pe.field < 0 || pe.field >= len(x.c) {
				panic(unsupported(fmt.Sprintf("cell index %d out of range %d", pe.field, len(x.c))))
			}
			v = x.c[pe.field]
		case ArrExpr:
			idx := pe.idx
			if idx == nil {
				idx = e.c64(uint64(pe.field))
			}
			if i != len(path)-1 {
				panic(unsupported("path below a byte"))
			}
			return e.arrRead(x, idx)
		case *BytesArrV:
			idx := pe.idx
			if idx == nil {
				idx = e.c64(uint64(pe.field))
			}
			return e.arrRead(x.arr, idx)
		case *ChoiceV:
			// distribute the load over the alternatives
			var res Value
			for j := len(x.alts) - 1; j >= 0; j-- {
				lv := e.loadPath(x.alts[j].v, path[i:])
				if res == nil {
					res = lv
				} else {
					res = e.mergeValues(x.alts[j].cond, lv, res)
				}
			}
			return res
		default:
			panic(unsupported(fmt.Sprintf("loadPath through %T", v)))
		}
	}
	return v
}

func (e *Engine) storePath(v Value, path []PathElem, nv Value) Value {
	if len(path) == 0 {
		return nv
	}
	pe := path[0]
	switch x := v.(type) {
	case *StructV:
		f := append([]Value(nil), x.f...)
		f[pe.field] = e.storePath(x.f[pe.field], path[1:], nv)
		return &StructV{f}
	case *CellsV:
		if pe.field < 0 || pe.field >= len(x.c) {
			panic(unsupported(fmt.Sprintf("cell store index %d out of range %d", pe.field, len(x.c))))
		}
		c := append([]Value(nil), x.c...)
		c[pe.field] = e.storePath(x.c[pe.field], path[1:], nv)
		return &CellsV{c}
	case ArrExpr:
		idx := pe.idx
		if idx == nil {
			idx = e.c64(uint64(pe.field))
		}
		return e.arrStore(x, idx, nv.(*Term))
	case *BytesArrV:
		idx := pe.idx
		if idx == nil {
			idx = e.c64(uint64(pe.field))
		}
		return &BytesArrV{arr: e.arrStore(x.arr, idx, nv.(*Term)), n: x.n}
	case *ChoiceV:
		alts := make([]Alt, len(x.alts))
		for i, a := range x.alts {
			alts[i] = Alt{a.cond, e.storePath(a.v, path, nv)}
		}
		return &ChoiceV{alts}
	}
	panic(unsupported(fmt.Sprintf("storePath through %T", v)))
}

func samePath(a, b []PathElem) bool {
	if len(a) != len(b) {
		return false
	}
	for i := range a {
		if a[i].field != b[i].field || a[i].idx != b[i].idx {
			return false
		}
	}
	return true
}

// ---------- merging ----------

func (e *Engine) mkChoice(c *Term, a, b Value) Value {
	var alts []Alt
	add := func(cond *Term, v Value) {
		if ch, ok := v.(*ChoiceV); ok {
			for _, al := range ch.alts {
				cc := e.tm.And(cond, al.cond)
				if !cc.IsFalse() {
					alts = append(alts, Alt{cc, al.v})
				}
			}
			return
		}
		if !cond.IsFalse() {
			alts = append(alts, Alt{cond, v})
		}
	}
	add(c, a)
	add(e.tm.Not(c), b)
	// coalesce identical alternatives
	var out []Alt
	for _, al := range alts {
		merged := false
		for i := range out {
			if e.identical(out[i].v, al.v) {
				out[i].cond = e.tm.Or(out[i].cond, al.cond)
				merged = true
				break
			}
		}
		if !merged {
			out = append(out, al)
		}
	}
	if len(out) == 1 {
		return out[0].v
	}
	return &ChoiceV{out}
}

// identical reports structural identity cheaply (pointer equality on terms and objects).
func (e *Engine) identical(a, b Value) bool {
	if a == b {
		return true
	}
	switch x := a.(type) {
	case nil:
		return b == nil
	case *Term:
		return false
	case *PtrV:
		y, ok := b.(*PtrV)
		if !ok {
			return false
		}
		if x.IsNil() && y.IsNil() {
			return true
		}
		return x.obj == y.obj && samePath(x.path, y.path)
	case *IfaceV:
		y, ok := b.(*IfaceV)
		if !ok {
			return false
		}
		if x.typ == nil || y.typ == nil {
			return x.typ == nil && y.typ == nil
		}
		return types.Identical(x.typ, y.typ) && e.identical(x.val, y.val)
	case *FuncV:
		y, ok := b.(*FuncV)
		if !ok || x.fn != y.fn || x.name != y.name || len(x.bind) != len(y.bind) {
			return false
		}
		for i := range x.bind {
			if !e.identical(x.bind[i], y.bind[i]) {
				return false
			}
		}
		return true
	case *MapV:
		y, ok := b.(*MapV)
		return ok && x.obj == y.obj
	case *ChanV:
		y, ok := b.(*ChanV)
		return ok && x.obj == y.obj
	case *SliceV:
		y, ok := b.(*SliceV)
		return ok && x.obj == y.obj && x.off == y.off && x.len == y.len && x.cap == y.cap
	case *StrV:
		y, ok := b.(*StrV)
		return ok && x.arr == y.arr && x.off == y.off && x.len == y.len
	case *StructV:
		y, ok := b.(*StructV)
		if !ok || len(x.f) != len(y.f) {
			return false
		}
		for i := range x.f {
			if !e.identical(x.f[i], y.f[i]) {
				return false
			}
		}
		return true
	case *TupleV:
		y, ok := b.(*TupleV)
		if !ok || len(x.v) != len(y.v) {
			return false
		}
		for i := range x.v {
			if !e.identical(x.v[i], y.v[i]) {
				return false
			}
		}
		return true
	case *OpaqueV:
		y, ok := b.(*OpaqueV)
		return ok && x.kind == y.kind && x.id == y.id && x.id != 0
	}
	return false
}

// diffConst: both terms are constants and differ.
func diffConst(a, b *Term) bool {
	return a.IsConst() && b.IsConst() && a != b
}

// mergeValues returns ite(c, a, b).
func (e *Engine) mergeValues(c *Term, a, b Value) Value {
	if c.IsTrue() {
		return a
	}
	if c.IsFalse() {
		return b
	}
	if e.identical(a, b) {
		return a
	}
	switch x := a.(type) {
	case *Term:
		if y, ok := b.(*Term); ok && x.w == y.w {
			return e.tm.Ite(c, x, y)
		}
	case *StrV:
		if y, ok := b.(*StrV); ok {
			if diffConst(x.len, y.len) {
				// strings of different concrete lengths stay apart as a guarded union: nothing
				// becomes symbolic, a strict use forks later
				return e.mkChoice(c, a, b)
			}
			if diffConst(x.off, y.off) {
				e.mergeLoss = e.mergeLoss || !e.lossyOK // concrete offsets would become symbolic
			}
			mx := x.max
			if y.max < 0 || (mx >= 0 && y.max > mx) {
				mx = y.max
			}
			if x.arr == y.arr {
				return &StrV{arr: x.arr, off: e.tm.Ite(c, x.off, y.off), len: e.tm.Ite(c, x.len, y.len), max: mx}
			}
			// normalise both to offset 0 when offsets differ
			return &StrV{arr: e.arrIte(c, x.arr, y.arr), off: e.tm.Ite(c, x.off, y.off), len: e.tm.Ite(c, x.len, y.len), max: mx}
		}
	case *SliceV:
		if y, ok := b.(*SliceV); ok && x.obj == y.obj && x.obj != nil {
			if diffConst(x.len, y.len) || diffConst(x.off, y.off) {
				e.mergeLoss = e.mergeLoss || !e.lossyOK
			}
			mx := x.max
			if y.max < 0 || (mx >= 0 && y.max > mx) {
				mx = y.max
			}
			return &SliceV{obj: x.obj, off: e.tm.Ite(c, x.off, y.off), len: e.tm.Ite(c, x.len, y.len), cap: e.tm.Ite(c, x.cap, y.cap), bytes: x.bytes, max: mx}
		}
	case *StructV:
		if y, ok := b.(*StructV); ok && len(x.f) == len(y.f) {
			f := make([]Value, len(x.f))
			for i := range f {
				f[i] = e.mergeValues(c, x.f[i], y.f[i])
			}
			return &StructV{f}
		}
	case *TupleV:
		if y, ok := b.(*TupleV); ok && len(x.v) == len(y.v) {
			f := make([]Value, len(x.v))
			for i := range f {
				f[i] = e.mergeValues(c, x.v[i], y.v[i])
			}
			return &TupleV{f}
		}
	case *CellsV:
		if y, ok := b.(*CellsV); ok && len(x.c) == len(y.c) {
			f := make([]Value, len(x.c))
			for i := range f {
				f[i] = e.mergeValues(c, x.c[i], y.c[i])
			}
			return &CellsV{f}
		}
		if y, ok := b.(*CellsV); ok {
			e.mergeLoss = true
			// different lengths: pad the shorter with the longer's cells (unreachable there)
			n := len(x.c)
			if len(y.c) > n {
				n = len(y.c)
			}
			f := make([]Value, n)
			for i := range f {
				switch {
				case i < len(x.c) && i < len(y.c):
					f[i] = e.mergeValues(c, x.c[i], y.c[i])
				case i < len(x.c):
					f[i] = x.c[i]
				default:
					f[i] = y.c[i]
				}
			}
			return &CellsV{f}
		}
	case ArrExpr:
		if y, ok := b.(ArrExpr); ok {
			return e.arrIte(c, x, y)
		}
	case *BytesArrV:
		if y, ok := b.(*BytesArrV); ok {
			return &BytesArrV{arr: e.arrIte(c, x.arr, y.arr), n: x.n}
		}
	case *IfaceV:
		if y, ok := b.(*IfaceV); ok && x.typ != nil && y.typ != nil && types.Identical(x.typ, y.typ) {
			return &IfaceV{typ: x.typ, val: e.mergeValues(c, x.val, y.val)}
		}
	case *MapContent:
		if y, ok := b.(*MapContent); ok {
			return e.mergeMaps(c, x, y)
		}
	case *OpaqueV:
		// stateful environment objects (channels, iterators, hash states) cannot be merged
		if x.kind == "chan" || x.kind == "iter" || x.kind == "hashstate" {
			e.mergeLoss = true
		}
	}
	return e.mkChoice(c, a, b)
}

// ---------- equality ----------

func (e *Engine) strEq(a, b *StrV) *Term {
	tm := e.tm
	if a.arr == b.arr && a.off == b.off && a.len == b.len {
		return tm.True
	}
	lenEq := tm.Eq(a.len, b.len)
	if lenEq.IsFalse() {
		return tm.False
	}
	// choose a concrete bound
	bound := -1
	if l, ok := a.len.ConstVal(); ok {
		bound = int(l)
	} else if l, ok := b.len.ConstVal(); ok {
		bound = int(l)
	} else {
		if a.max >= 0 {
			bound = a.max
		}
		if b.max >= 0 && (bound < 0 || b.max < bound) {
			bound = b.max
		}
	}
	if bound < 0 {
		bound = e.cfg.DefaultStrBound
		e.note("string equality with unknown bound: default " + fmt.Sprint(bound))
	}
	conj := []*Term{lenEq}
	_, aConst := a.len.ConstVal()
	_, bConst := b.len.ConstVal()
	for i := 0; i < bound; i++ {
		ci := e.c64(uint64(i))
		x := e.arrRead(a.arr, tm.Add(a.off, ci))
		y := e.arrRead(b.arr, tm.Add(b.off, ci))
		eq := tm.Eq(x, y)
		if aConst || bConst {
			conj = append(conj, eq)
		} else {
			conj = append(conj, tm.Or(tm.Ule(a.len, ci), eq))
		}
		if eq.IsFalse() && (aConst || bConst) {
			return tm.False
		}
	}
	return tm.And(conj...)
}

// valuesEqual implements Go's == for comparable values.
func (e *Engine) valuesEqual(a, b Value) *Term {
	tm := e.tm
	if ch, ok := a.(*ChoiceV); ok {
		var ds []*Term
		for _, al := range ch.alts {
			ds = append(ds, tm.And(al.cond, e.valuesEqual(al.v, b)))
		}
		return tm.Or(ds...)
	}
	if _, ok := b.(*ChoiceV); ok {
		return e.valuesEqual(b, a)
	}
	switch x := a.(type) {
	case *Term:
		y := b.(*Term)
		return tm.Eq(x, y)
	case *StrV:
		return e.strEq(x, b.(*StrV))
	case *PtrV:
		y := b.(*PtrV)
		if x.IsNil() || y.IsNil() {
			return tm.Bool(x.IsNil() && y.IsNil())
		}
		if x.obj != y.obj || len(x.path) != len(y.path) {
			return tm.False
		}
		conj := []*Term{}
		for i := range x.path {
			if (x.path[i].idx == nil) != (y.path[i].idx == nil) {
				return tm.False
			}
			if x.path[i].idx != nil {
				conj = append(conj, tm.Eq(x.path[i].idx, y.path[i].idx))
			} else if x.path[i].field != y.path[i].field {
				return tm.False
			}
		}
		return tm.And(conj...)
	case *IfaceV:
		y, ok := b.(*IfaceV)
		if !ok {
			panic(unsupported(fmt.Sprintf("compare iface with %T", b)))
		}
		if x.typ == nil || y.typ == nil {
			return tm.Bool(x.typ == nil && y.typ == nil)
		}
		if !types.Identical(x.typ, y.typ) {
			return tm.False
		}
		return e.valuesEqual(x.val, y.val)
	case *StructV:
		y := b.(*StructV)
		var conj []*Term
		for i := range x.f {
			conj = append(conj, e.valuesEqual(x.f[i], y.f[i]))
		}
		return tm.And(conj...)
	case *OpaqueV:
		y, ok := b.(*OpaqueV)
		if !ok {
			return tm.False
		}
		return tm.Bool(x == y || (x.id != 0 && x.id == y.id && x.kind == y.kind))
	case *MapV:
		y := b.(*MapV)
		return tm.Bool(x.obj == y.obj)
	case *ChanV:
		y := b.(*ChanV)
		return tm.Bool(x.obj == y.obj)
	case *FuncV:
		y := b.(*FuncV)
		if (x.fn == nil && x.name == "") || (y.fn == nil && y.name == "") {
			return tm.Bool((x.fn == nil && x.name == "") && (y.fn == nil && y.name == ""))
		}
		panic(unsupported("comparison of non-nil funcs"))
	case *SliceV:
		y := b.(*SliceV)
		if x.obj == nil || y.obj == nil {
			return tm.Bool(x.obj == nil && y.obj == nil)
		}
		panic(unsupported("comparison of non-nil slices"))
	case *BytesArrV:
		y := b.(*BytesArrV)
		var conj []*Term
		for i := 0; i < x.n; i++ {
			conj = append(conj, tm.Eq(e.arrRead(x.arr, e.c64(uint64(i))), e.arrRead(y.arr, e.c64(uint64(i)))))
		}
		return tm.And(conj...)
	case *CellsV:
		y := b.(*CellsV)
		var conj []*Term
		for i := range x.c {
			conj = append(conj, e.valuesEqual(x.c[i], y.c[i]))
		}
		return tm.And(conj...)
	}
	panic(unsupported(fmt.Sprintf("valuesEqual %T", a)))
}

// isNilTerm: condition under which v is nil (pointer/slice/map/iface/func/chan).
func (e *Engine) isNilTerm(v Value) *Term {
	tm := e.tm
	switch x := v.(type) {
	case *ChoiceV:
		var ds []*Term
		for _, al := range x.alts {
			ds = append(ds, tm.And(al.cond, e.isNilTerm(al.v)))
		}
		return tm.Or(ds...)
	case *PtrV:
		return tm.Bool(x.IsNil())
	case *SliceV:
		return tm.Bool(x.obj == nil)
	case *MapV:
		return tm.Bool(x.obj == nil)
	case *IfaceV:
		return tm.Bool(x.typ == nil)
	case *FuncV:
		return tm.Bool(x.fn == nil && x.name == "")
	case *ChanV:
		return tm.Bool(x.obj == nil)
	}
	panic(unsupported(fmt.Sprintf("isNil of %T", v)))
}
