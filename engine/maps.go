package main

// Maps (write-log model), range iterators, minimal channels and select.

import (
	"fmt"
	"go/types"

	"golang.org/x/tools/go/ssa"
)

func (e *Engine) mapContent(st *State, m *MapV) *MapContent {
	c, ok := st.mem.get(m.obj)
	if !ok {
		panic(unsupported("unknown map object"))
	}
	return c.(*MapContent)
}

func (e *Engine) mapUpdate(st *State, m *MapV, k, v Value) {
	c := e.mapContent(st, m)
	log := append(append([]MapEntry(nil), c.log...), MapEntry{key: k, val: v, guard: e.tm.True})
	st.mem.set(m.obj, &MapContent{log})
}

func (e *Engine) mapDelete(st *State, m *MapV, k Value) {
	c := e.mapContent(st, m)
	log := append(append([]MapEntry(nil), c.log...), MapEntry{key: k, val: nil, guard: e.tm.True})
	st.mem.set(m.obj, &MapContent{log})
}

// mapLookup returns (value, ok).
func (e *Engine) mapLookup(st *State, m *MapV, k Value, elem types.Type) (Value, *Term) {
	tm := e.tm
	var val Value = e.zero(elem)
	ok := tm.False
	if m.obj == nil {
		return val, ok
	}
	c := e.mapContent(st, m)
	for _, en := range c.log {
		hit := tm.And(en.guard, e.valuesEqual(en.key, k))
		if hit.IsFalse() {
			continue
		}
		if en.val == nil {
			val = e.mergeValues(hit, e.zero(elem), val)
			ok = tm.And(tm.Not(hit), ok)
		} else {
			val = e.mergeValues(hit, en.val, val)
			ok = tm.Or(hit, ok)
		}
	}
	return val, ok
}

type liveEntry struct {
	cond *Term
	key  Value
	val  Value
}

// mapLive lists the entries in effect, each with the condition under which it is present.
func (e *Engine) mapLive(st *State, m *MapV) []liveEntry {
	tm := e.tm
	if m.obj == nil {
		return nil
	}
	c := e.mapContent(st, m)
	var out []liveEntry
	for i, en := range c.log {
		if en.val == nil {
			continue
		}
		cond := en.guard
		for j := i + 1; j < len(c.log); j++ {
			later := c.log[j]
			same := tm.And(later.guard, e.valuesEqual(later.key, en.key))
			cond = tm.And(cond, tm.Not(same))
			if cond.IsFalse() {
				break
			}
		}
		if cond.IsFalse() {
			continue
		}
		out = append(out, liveEntry{cond, en.key, en.val})
	}
	return out
}

func (e *Engine) mapLen(st *State, m *MapV) *Term {
	tm := e.tm
	n := e.c64(0)
	for _, le := range e.mapLive(st, m) {
		n = tm.Add(n, tm.Ite(le.cond, e.c64(1), e.c64(0)))
	}
	return n
}

func entrySame(e *Engine, a, b MapEntry) bool {
	if a.guard != b.guard {
		return false
	}
	if (a.val == nil) != (b.val == nil) {
		return false
	}
	if !e.identical(a.key, b.key) {
		if ta, ok := a.key.(*Term); !ok || ta != b.key {
			return false
		}
	}
	if a.val == nil {
		return true
	}
	if ta, ok := a.val.(*Term); ok {
		return ta == b.val
	}
	return e.identical(a.val, b.val)
}

func (e *Engine) mergeMaps(c *Term, x, y *MapContent) Value {
	tm := e.tm
	k := 0
	for k < len(x.log) && k < len(y.log) && entrySame(e, x.log[k], y.log[k]) {
		k++
	}
	log := append([]MapEntry(nil), x.log[:k]...)
	for _, en := range x.log[k:] {
		log = append(log, MapEntry{key: en.key, val: en.val, guard: tm.And(en.guard, c)})
	}
	nc := tm.Not(c)
	for _, en := range y.log[k:] {
		log = append(log, MapEntry{key: en.key, val: en.val, guard: tm.And(en.guard, nc)})
	}
	return &MapContent{log}
}

// ---------- range ----------

type iterState struct {
	kind    string // map | str
	entries []liveEntry
	str     *StrV
	pos     int
}

func (e *Engine) rangeInit(fr *Frame, st *State, in *ssa.Range) Value {
	x := e.resolved(fr, in.X)
	o := e.newObject("iter", nil)
	switch v := x.(type) {
	case *MapV:
		st.mem.set(o, &OpaqueV{kind: "iter", data: &iterState{kind: "map", entries: e.mapLive(st, v)}})
	case *StrV:
		st.mem.set(o, &OpaqueV{kind: "iter", data: &iterState{kind: "str", str: v}})
	default:
		panic(unsupported(fmt.Sprintf("range over %T", x)))
	}
	return &PtrV{obj: o}
}

func (e *Engine) rangeNext(fr *Frame, st *State, in *ssa.Next) stepResult {
	tm := e.tm
	p := e.get(fr, in.Iter).(*PtrV)
	cv, _ := st.mem.get(p.obj)
	it := cv.(*OpaqueV).data.(*iterState)
	fi := fr.info
	tt := in.Type().(*types.Tuple)
	done := func(f *Frame, s *State) {
		f.locals[fi.idx[in]] = &TupleV{[]Value{tm.False, e.zeroOrNil(tt.At(1).Type()), e.zeroOrNil(tt.At(2).Type())}}
		f.ip++
	}
	if it.kind == "str" {
		s := it.str
		pos := e.c64(uint64(it.pos))
		more := tm.Ult(pos, s.len)
		b := e.arrRead(s.arr, tm.Add(s.off, pos))
		next := func(f *Frame, st2 *State) {
			st2.mem.set(p.obj, &OpaqueV{kind: "iter", data: &iterState{kind: "str", str: s, pos: it.pos + 1}})
			if !e.mustHold(st2, tm.Ult(b, tm.BV(128, 8))) {
				panic(unsupported("range over string with possibly non-ASCII bytes"))
			}
			f.locals[fi.idx[in]] = &TupleV{[]Value{tm.True, pos, tm.ZExt(b, 32)}}
			f.ip++
		}
		return stepResult{kind: stepBranch, branches: []branch{{cond: more, apply: next}, {cond: tm.Not(more), apply: done}}}
	}
	// map: entries it.pos.. ; skip those whose presence condition fails
	var bs []branch
	skipped := tm.True
	for j := it.pos; j < len(it.entries); j++ {
		j := j
		en := it.entries[j]
		cond := tm.And(skipped, en.cond)
		if !cond.IsFalse() {
			bs = append(bs, branch{cond: cond, apply: func(f *Frame, s *State) {
				s.mem.set(p.obj, &OpaqueV{kind: "iter", data: &iterState{kind: "map", entries: it.entries, pos: j + 1}})
				f.locals[fi.idx[in]] = &TupleV{[]Value{tm.True, en.key, en.val}}
				f.ip++
			}})
		}
		skipped = tm.And(skipped, tm.Not(en.cond))
		if skipped.IsFalse() {
			break
		}
	}
	if !skipped.IsFalse() {
		bs = append(bs, branch{cond: skipped, apply: done})
	}
	return stepResult{kind: stepBranch, branches: bs}
}

func (e *Engine) zeroOrNil(t types.Type) Value {
	if b, ok := t.(*types.Basic); ok && b.Kind() == types.Invalid {
		return nil
	}
	return e.zero(t)
}

// ---------- channels (minimal: buffered FIFO + closed flag, no blocking hand-off) ----------

type chanState struct {
	buf    []Value
	closed bool
}

func (e *Engine) chanGet(st *State, ch *ChanV) *chanState {
	if ch.obj == nil {
		return nil
	}
	cv, _ := st.mem.get(ch.obj)
	if o, ok := cv.(*OpaqueV); ok {
		return o.data.(*chanState)
	}
	return &chanState{}
}

func (e *Engine) chanPut(st *State, ch *ChanV, cs *chanState) {
	st.mem.set(ch.obj, &OpaqueV{kind: "chan", data: cs})
}

func (e *Engine) chanClose(st *State, ch *ChanV, site ssa.Instruction) {
	cs := e.chanGet(st, ch)
	if cs == nil {
		e.panicObligation(st, e.tm.False, "close-of-nil-channel", site)
		panic(pathEnd{"close nil chan"})
	}
	if cs.closed {
		e.panicObligation(st, e.tm.False, "close-of-closed-channel", site)
		panic(pathEnd{"close closed chan"})
	}
	e.chanPut(st, ch, &chanState{buf: cs.buf, closed: true})
}

func (e *Engine) chanSend(fr *Frame, st *State, in *ssa.Send) {
	ch := e.resolved(fr, in.Chan).(*ChanV)
	cs := e.chanGet(st, ch)
	if cs == nil {
		panic(pathEnd{"send on nil channel blocks forever"})
	}
	if cs.closed {
		e.panicObligation(st, e.tm.False, "send-on-closed-channel", in)
		panic(pathEnd{"send on closed"})
	}
	e.chanPut(st, ch, &chanState{buf: append(append([]Value(nil), cs.buf...), e.get(fr, in.X)), closed: false})
}

func (e *Engine) chanRecv(fr *Frame, st *State, in *ssa.UnOp) Value {
	ch := e.resolved(fr, in.X).(*ChanV)
	cs := e.chanGet(st, ch)
	et := in.X.Type().Underlying().(*types.Chan).Elem()
	if cs == nil {
		panic(pathEnd{"receive on nil channel blocks forever"})
	}
	var v Value
	ok := e.tm.True
	switch {
	case len(cs.buf) > 0:
		v = cs.buf[0]
		e.chanPut(st, ch, &chanState{buf: append([]Value(nil), cs.buf[1:]...), closed: cs.closed})
	case cs.closed:
		v = e.zero(et)
		ok = e.tm.False
	default:
		panic(pathEnd{"receive on empty channel blocks (no scheduler)"})
	}
	if in.CommaOk {
		return &TupleV{[]Value{v, ok}}
	}
	return v
}

func (e *Engine) selectOp(fr *Frame, st *State, in *ssa.Select) stepResult {
	tm := e.tm
	nRecv := 0
	for _, s := range in.States {
		if s.Dir == types.RecvOnly {
			nRecv++
		}
	}
	mk := func(idx int, recvOk *Term, recvVals []Value) Value {
		vs := []Value{e.tm.BV(uint64(int64(idx)), 64), recvOk}
		k := 0
		for _, s := range in.States {
			if s.Dir == types.RecvOnly {
				if k < len(recvVals) && recvVals[k] != nil {
					vs = append(vs, recvVals[k])
				} else {
					vs = append(vs, e.zero(s.Chan.Type().Underlying().(*types.Chan).Elem()))
				}
				k++
			}
		}
		return &TupleV{vs}
	}
	for i, s := range in.States {
		ch := e.resolved(fr, s.Chan).(*ChanV)
		cs := e.chanGet(st, ch)
		if cs == nil {
			continue
		}
		if s.Dir == types.RecvOnly {
			if len(cs.buf) > 0 {
				v := cs.buf[0]
				e.chanPut(st, ch, &chanState{buf: append([]Value(nil), cs.buf[1:]...), closed: cs.closed})
				vals := make([]Value, nRecv)
				k := 0
				for j := 0; j < i; j++ {
					if in.States[j].Dir == types.RecvOnly {
						k++
					}
				}
				vals[k] = v
				e.set(fr, in, mk(i, tm.True, vals))
				fr.ip++
				return stepResult{kind: stepNext}
			}
			if cs.closed {
				e.set(fr, in, mk(i, tm.False, nil))
				fr.ip++
				return stepResult{kind: stepNext}
			}
		} else {
			if cs.closed {
				e.panicObligation(st, tm.False, "send-on-closed-channel", in)
				panic(pathEnd{"send on closed"})
			}
			e.chanPut(st, ch, &chanState{buf: append(append([]Value(nil), cs.buf...), e.get(fr, s.Send)), closed: false})
			e.set(fr, in, mk(i, tm.False, nil))
			fr.ip++
			return stepResult{kind: stepNext}
		}
	}
	if !in.Blocking {
		e.set(fr, in, mk(-1, tm.False, nil))
		fr.ip++
		return stepResult{kind: stepNext}
	}
	if _, ok := st.ghost["vp.parkreturns"]; ok {
		// the goroutine parks here for good: unwind to vpGo
		panic(parkReq{})
	}
	panic(pathEnd{"select blocks (no scheduler)"})
}
