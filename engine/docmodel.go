package main

// C16: models of the two reflection-driven configuration decoders, applied to a *document
// description* (vpDoc) instead of text.  The contract is read off the libraries' sources:
//   - a document that does not parse makes the decoder fail before it writes anything;
//   - top-level keys absent from the document leave the target field untouched;
//   - gopkg.in/yaml.v3 (decode.go, sequence()): a sequence always gets a freshly made slice,
//     mapping keys absent from an element leave a zero field (the element is fresh);
//   - encoding/json (decode.go, array()/object()): an array is decoded element by element into
//     the target's existing backing array (SetLen within capacity, no zeroing), an object only
//     writes the keys it contains, so an element keeps the old value of every absent key.
// Natively the harness renders the description as real YAML / JSON and the real libraries run;
// translator validation and every replay compare the two.

import (
	"fmt"
	"go/types"

	"golang.org/x/tools/go/ssa"
)

func init() {
	if vpAPI == nil {
		vpAPI = map[string]intrinsicFn{}
	}
	vpAPI["vpDocBytes"] = vpDocBytes
	if intrinsics == nil {
		intrinsics = map[string]intrinsicFn{}
	}
	intrinsics["gopkg.in/yaml.v3.Unmarshal"] = func(e *Engine, st *State, fn *ssa.Function, a []Value, s ssa.Instruction) []Outcome {
		return e.docUnmarshal(st, a, "yaml", s)
	}
}

func vpDocBytes(e *Engine, st *State, fn *ssa.Function, a []Value, s ssa.Instruction) []Outcome {
	p, ok := a[0].(*PtrV)
	if !ok || p.IsNil() {
		panic(unsupported("vpDocBytes(nil)"))
	}
	name := e.tm.FreshName("doc")
	o := e.newObject(name, types.Typ[types.Uint8])
	st.mem.set(o, ArrExpr(e.arrSym(name)))
	e.docs[o] = p
	return one(st, &SliceV{obj: o, off: e.c64(0), len: e.c64(2), cap: e.c64(2), bytes: true, max: 2})
}

// decide resolves a boolean term on the path: (value, true) if it is determined, else forks.
func (e *Engine) decideFlags(st *State, flags []*Term, k func(st *State, vals []bool) []Outcome) []Outcome {
	vals := make([]bool, len(flags))
	var rec func(st *State, i int) []Outcome
	rec = func(st *State, i int) []Outcome {
		if i == len(flags) {
			return k(st, append([]bool(nil), vals...))
		}
		f := flags[i]
		if f.IsConst() {
			vals[i] = f.IsTrue()
			return rec(st, i+1)
		}
		canT := e.feasible(st, f)
		canF := e.feasible(st, e.tm.Not(f))
		var outs []Outcome
		if canT && canF {
			s2 := st.clone()
			s2.assume(f)
			s2.splits++
			vals[i] = true
			outs = append(outs, rec(s2, i+1)...)
			st.assume(e.tm.Not(f))
			st.splits++
			vals[i] = false
			return append(outs, rec(st, i+1)...)
		}
		vals[i] = canT
		return rec(st, i+1)
	}
	return rec(st, 0)
}

func (e *Engine) cellsOf(st *State, v Value) []Value {
	s, ok := v.(*SliceV)
	if !ok || s.obj == nil {
		return nil
	}
	cv, _ := st.mem.get(s.obj)
	cells := cv.(*CellsV).c
	off, _ := s.off.ConstVal()
	n, ok := s.len.ConstVal()
	if !ok {
		panic(unsupported("document description with symbolic list length"))
	}
	return cells[off : off+n]
}

func (e *Engine) docUnmarshal(st *State, a []Value, mode string, site ssa.Instruction) []Outcome {
	in, ok := a[0].(*SliceV)
	if !ok || in.obj == nil {
		panic(unsupported(mode + ".Unmarshal of bytes that are not a document description"))
	}
	dp, ok := e.docs[in.obj]
	if !ok {
		panic(unsupported(mode + ".Unmarshal of bytes that are not a document description"))
	}
	tgtI, ok := a[1].(*IfaceV)
	if !ok || tgtI.typ == nil {
		panic(unsupported(mode + ".Unmarshal target"))
	}
	tgt := tgtI.val.(*PtrV)
	e.note(mode + " decoder modelled by its merge contract on a document description")
	desc := e.loadPtr(st, dp).(*StructV)
	flags := []*Term{desc.f[0].(*Term), desc.f[1].(*Term), desc.f[3].(*Term), desc.f[5].(*Term), desc.f[7].(*Term)}
	userHas := e.cellsOf(st, desc.f[9])
	for _, u := range userHas {
		flags = append(flags, u.(*Term))
	}
	return e.decideFlags(st, flags, func(st *State, v []bool) []Outcome {
		if v[0] {
			return one(st, e.newOpaqueError(mode+": document does not parse", nil, nil, nil))
		}
		cfg := e.loadPtr(st, tgt).(*StructV)
		f := append([]Value(nil), cfg.f...)
		type item struct {
			has      bool
			src, dst int
			users    bool
			secrets  bool
		}
		for _, it := range []item{{v[1], 2, 0, false, true}, {v[2], 4, 1, true, false}, {v[3], 6, 2, false, false}, {v[4], 8, 3, false, false}} {
			if !it.has {
				continue
			}
			src := e.cellsOf(st, desc.f[it.src])
			old, _ := f[it.dst].(*SliceV)
			mergeElem := func(oldElem, docElem Value, i int) Value {
				switch {
				case it.users:
					d := docElem.(*StructV)
					base := d
					if mode == "json" && oldElem != nil {
						base = oldElem.(*StructV) // keys absent from the element keep the old field
					} else {
						base = e.zero(e.elemType(f[it.dst], cfg, it.dst)).(*StructV)
					}
					nf := append([]Value(nil), base.f...)
					nf[0] = d.f[0] // name
					if v[5+i] {
						nf[1] = d.f[1] // scopes present
					}
					return &StructV{nf}
				case it.secrets:
					d := docElem.(*StructV)
					base := d
					if mode == "json" && oldElem != nil {
						base = oldElem.(*StructV)
					} else {
						base = e.zero(e.elemType(f[it.dst], cfg, it.dst)).(*StructV)
					}
					nf := append([]Value(nil), base.f...)
					nf[0] = d.f[0] // name
					nf[3] = d.f[3] // type
					return &StructV{nf}
				}
				return docElem
			}
			n := len(src)
			if mode == "json" && old != nil && old.obj != nil {
				oc, _ := old.cap.ConstVal()
				ooff, _ := old.off.ConstVal()
				if uint64(n) <= oc {
					// decoded in place: the backing array is shared with every copy of the old slice
					cv, _ := st.mem.get(old.obj)
					cells := append([]Value(nil), cv.(*CellsV).c...)
					for i := 0; i < n; i++ {
						var oe Value
						if int(ooff)+i < len(cells) {
							oe = cells[int(ooff)+i]
						}
						for len(cells) <= int(ooff)+i {
							cells = append(cells, nil)
						}
						cells[int(ooff)+i] = mergeElem(oe, src[i], i)
					}
					st.mem.set(old.obj, &CellsV{cells})
					f[it.dst] = &SliceV{obj: old.obj, off: old.off, len: e.c64(uint64(n)), cap: old.cap, max: n}
					continue
				}
			}
			cells := make([]Value, n)
			var oldCells []Value
			if mode == "json" && old != nil && old.obj != nil {
				oldCells = e.cellsOf(st, old)
			}
			for i := 0; i < n; i++ {
				var oe Value
				if i < len(oldCells) {
					oe = oldCells[i]
				}
				cells[i] = mergeElem(oe, src[i], i)
			}
			o := e.newObject(mode+"-seq", nil)
			st.mem.set(o, &CellsV{cells})
			f[it.dst] = &SliceV{obj: o, off: e.c64(0), len: e.c64(uint64(n)), cap: e.c64(uint64(n)), max: n}
		}
		e.storePtr(st, tgt, &StructV{f})
		return one(st, &IfaceV{})
	})
}

// elemType: element type of the dst-th field (a slice) of the configuration struct.
func (e *Engine) elemType(v Value, cfg *StructV, dst int) types.Type {
	t := e.cfgType
	if t == nil {
		panic(unsupported("configuration type unknown"))
	}
	st := t.Underlying().(*types.Struct)
	sl, ok := st.Field(dst).Type().Underlying().(*types.Slice)
	if !ok {
		panic(unsupported(fmt.Sprintf("configuration field %d is not a list", dst)))
	}
	return sl.Elem()
}
