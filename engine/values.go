package main

// Executor-side value model.  All values are immutable; memory is a map object -> value.

import (
	"fmt"
	"go/types"
	"strings"

	"golang.org/x/tools/go/ssa"
)

type Value interface{}

// Object is an allocation unit.  Its current content lives in State.mem.
type Object struct {
	id   int
	name string
	typ  types.Type // element/pointee type (informational)
}

func (o *Object) String() string { return fmt.Sprintf("obj%d(%s)", o.id, o.name) }

// PathElem addresses a component of an object's value.
type PathElem struct {
	field int   // struct field or concrete cell index (when idx == nil)
	idx   *Term // byte index inside a byte object (64-bit), else nil
}

type PtrV struct {
	obj  *Object // nil => nil pointer
	path []PathElem
	fn   *ssa.Function // pointer to a function's code is not supported; unused
}

func (p *PtrV) IsNil() bool { return p == nil || p.obj == nil }

// SliceV is a Go slice header.  Byte slices point to objects whose value is an ArrExpr,
// other slices to objects whose value is a *CellsV.
type SliceV struct {
	obj   *Object // nil => nil slice
	off   *Term   // 64-bit offset into the backing object
	len   *Term
	cap   *Term
	bytes bool
	max   int // best-effort concrete upper bound on len (-1 unknown)
}

// StrV is an immutable byte string.
type StrV struct {
	arr ArrExpr
	off *Term
	len *Term
	max int // concrete upper bound on len (-1 unknown)
}

type StructV struct {
	f []Value
}

// CellsV is the content of an array / non-byte slice backing store.
type CellsV struct {
	c []Value
}

type IfaceV struct {
	typ types.Type // nil => nil interface
	val Value
}

type FuncV struct {
	fn   *ssa.Function // nil => nil func
	bind []Value
	name string // intrinsic-only function value (no SSA body)
}

type MapV struct {
	obj *Object // nil => nil map
}

// MapContent is the value of a map object: an append-only write log.
type MapEntry struct {
	key   Value
	val   Value // nil => deletion
	guard *Term // entry is in effect only when guard holds
}
type MapContent struct {
	log []MapEntry
}

type TupleV struct {
	v []Value
}

// ChoiceV is a guarded union of non-scalar values produced by merging.
type Alt struct {
	cond *Term
	v    Value
}
type ChoiceV struct {
	alts []Alt
}

// OpaqueV stands for environment values the engine does not look into (errors built by
// fmt.Errorf, contexts, times, metrics...).  deps lists the symbolic leaves it was built from.
type OpaqueV struct {
	kind string
	id   int
	data interface{}
	deps []*Term
	text *StrV // rendered text if known
}

// ChanV is a channel object handle (only used by the minimal goroutine support).
type ChanV struct {
	obj *Object
}

func typeName(t types.Type) string {
	if t == nil {
		return "<nil>"
	}
	return types.TypeString(t, nil)
}

func isByteType(t types.Type) bool {
	b, ok := t.Underlying().(*types.Basic)
	return ok && (b.Kind() == types.Uint8 || b.Kind() == types.Byte)
}

func intWidth(t types.Type) (w int, signed bool, ok bool) {
	b, isB := t.Underlying().(*types.Basic)
	if !isB {
		return 0, false, false
	}
	switch b.Kind() {
	case types.Int8:
		return 8, true, true
	case types.Int16:
		return 16, true, true
	case types.Int32:
		return 32, true, true
	case types.Int64, types.Int, types.UntypedInt:
		return 64, true, true
	case types.Uint8:
		return 8, false, true
	case types.Uint16:
		return 16, false, true
	case types.Uint32:
		return 32, false, true
	case types.Uint64, types.Uint, types.Uintptr:
		return 64, false, true
	case types.UntypedRune:
		return 32, true, true
	}
	return 0, false, false
}

func isBoolType(t types.Type) bool {
	b, ok := t.Underlying().(*types.Basic)
	return ok && (b.Kind() == types.Bool || b.Kind() == types.UntypedBool)
}

func isStringType(t types.Type) bool {
	b, ok := t.Underlying().(*types.Basic)
	return ok && (b.Kind() == types.String || b.Kind() == types.UntypedString)
}

func isFloatType(t types.Type) bool {
	b, ok := t.Underlying().(*types.Basic)
	return ok && (b.Info()&types.IsFloat != 0)
}

func describe(v Value) string {
	switch x := v.(type) {
	case nil:
		return "<nil>"
	case *Term:
		if c, ok := x.ConstVal(); ok {
			return fmt.Sprintf("%d:w%d", c, x.w)
		}
		return fmt.Sprintf("sym:w%d", x.w)
	case *StrV:
		if s, ok := concreteString(x); ok {
			return fmt.Sprintf("%q", s)
		}
		return "str(sym)"
	case *SliceV:
		if x.obj == nil {
			return "slice(nil)"
		}
		return "slice(" + x.obj.String() + ")"
	case *StructV:
		var ps []string
		for _, f := range x.f {
			ps = append(ps, describe(f))
		}
		return "{" + strings.Join(ps, ",") + "}"
	case *PtrV:
		if x.IsNil() {
			return "ptr(nil)"
		}
		return "ptr(" + x.obj.String() + ")"
	case *IfaceV:
		if x.typ == nil {
			return "iface(nil)"
		}
		return "iface(" + typeName(x.typ) + ":" + describe(x.val) + ")"
	case *FuncV:
		if x.fn != nil {
			return "func(" + x.fn.String() + ")"
		}
		return "func(" + x.name + ")"
	case *ChoiceV:
		return fmt.Sprintf("choice(%d)", len(x.alts))
	case *OpaqueV:
		return "opaque(" + x.kind + ")"
	case *TupleV:
		var ps []string
		for _, f := range x.v {
			ps = append(ps, describe(f))
		}
		return "(" + strings.Join(ps, ",") + ")"
	case *MapV:
		return "map"
	case *CellsV:
		return fmt.Sprintf("cells(%d)", len(x.c))
	}
	return fmt.Sprintf("%T", v)
}
