package main

// `gosym check <property>`: run every harness of a property, replay candidates natively,
// validate the translator on sampled paths, apply known findings, write evidence.

import (
	"encoding/json"
	"flag"
	"fmt"
	"os"
	"path/filepath"
	"runtime"
	"sort"
	"strconv"
	"strings"
	"time"

	"golang.org/x/tools/go/ssa"
)

type CheckSpec struct {
	Prefix      string         `json:"prefix"`
	Title       string         `json:"title"`
	Quick       map[string]int `json:"quick"`
	Thorough    map[string]int `json:"thorough"`
	Assumptions []string       `json:"assumptions"`
	Outside     []string       `json:"outside"`
	// ExtraPrefixes: harnesses of other properties whose panic obligations also count here
	ExtraPrefixes []string `json:"extra_prefixes"`
	TimeoutMs     int      `json:"timeout_ms"`
	Workers       int      `json:"workers"`
	DeadlineS     int      `json:"deadline_s"`
}

type KnownFinding struct {
	Status     string `json:"status"` // finding | fixed
	Property   string `json:"property"`
	Harness    string `json:"harness,omitempty"`    // harness name prefix
	Obligation string `json:"obligation,omitempty"` // assertion id or panic id prefix
	Commit     string `json:"commit,omitempty"`
	What       string `json:"what"`
}

type KnownFile struct {
	Findings []KnownFinding `json:"findings"`
}

func verifRoot() string { return envOr("VP_VERIF", "/verif") }

func loadSpecs() (map[string]CheckSpec, error) {
	b, err := os.ReadFile(filepath.Join(verifRoot(), "checks.json"))
	if err != nil {
		return nil, err
	}
	m := map[string]CheckSpec{}
	if err := json.Unmarshal(b, &m); err != nil {
		return nil, err
	}
	return m, nil
}

func loadKnown() KnownFile {
	var k KnownFile
	b, err := os.ReadFile(filepath.Join(verifRoot(), "known_findings.json"))
	if err == nil {
		json.Unmarshal(b, &k)
	}
	return k
}

func matchKnown(k KnownFile, prop, harness, obligation string) *KnownFinding {
	for i := range k.Findings {
		f := &k.Findings[i]
		if f.Status != "finding" || f.Property != prop {
			continue
		}
		if f.Harness != "" && !strings.HasPrefix(harness, f.Harness) {
			continue
		}
		if f.Obligation != "" && !strings.HasPrefix(obligation, f.Obligation) {
			continue
		}
		return f
	}
	return nil
}

// staticReachIDs lists the vpReach markers that occur in the harness functions.
func staticReachIDs(fns []*ssa.Function) map[string]bool {
	ids := map[string]bool{}
	var visit func(fn *ssa.Function)
	visit = func(fn *ssa.Function) {
		for _, b := range fn.Blocks {
			for _, in := range b.Instrs {
				if c, ok := in.(*ssa.Call); ok {
					if sc := c.Common().StaticCallee(); sc != nil && sc.Name() == "vpReach" && len(c.Common().Args) == 1 {
						if k, ok := c.Common().Args[0].(*ssa.Const); ok && k.Value != nil {
							ids[strings.Trim(k.Value.ExactString(), "\"")] = true
						}
					}
				}
			}
		}
		for _, an := range fn.AnonFuncs {
			visit(an)
		}
	}
	for _, fn := range fns {
		visit(fn)
	}
	return ids
}

func cmdCheck(args []string) int {
	startMemWatchdog()
	fs := flag.NewFlagSet("check", flag.ExitOnError)
	tier := fs.String("tier", envOr("VERIF_TIER", "quick"), "quick|thorough")
	workers := fs.Int("workers", runtime.NumCPU(), "parallel workers")
	verbose := fs.Bool("v", false, "verbose")
	noValidate := fs.Bool("novalidate", false, "skip translator validation")
	if len(args) < 1 {
		fmt.Println("usage: gosym check <property> [--tier quick|thorough]")
		return 2
	}
	prop := args[0]
	fs.Parse(args[1:])
	if *tier != "quick" && *tier != "thorough" {
		*tier = "quick"
	}
	seed, _ := strconv.Atoi(envOr("VERIF_SEED", "0"))
	t0 := time.Now()
	specs, err := loadSpecs()
	if err != nil {
		fmt.Println("cannot load checks.json:", err)
		return 2
	}
	spec, ok := specs[prop]
	if !ok {
		fmt.Println("no check registered for", prop)
		return 2
	}
	ld, err := Load(envOr("VP_REPO", "/repo"), filepath.Join(verifRoot(), "harness"))
	if err != nil {
		// the tree does not build with the harness: nothing can be decided
		fmt.Printf("UNDECIDED property=%s reason=load-failed\n%v\n", prop, err)
		writeEvidence(prop, *tier, seed, nil, nil, spec, time.Since(t0), 0, 0, 0, []string{"load failed: " + err.Error()}, nil)
		return 0
	}
	loadTime := time.Since(t0)
	cfg := defaultConfig(*tier)
	cfg.Owner = prop
	if spec.TimeoutMs > 0 {
		cfg.TimeoutMs = spec.TimeoutMs
	}
	cfg.Bounds["seed"] = seed
	// every check has a time budget: exploration that is still running when it expires is
	// truncated and reported as UNDECIDED (never as success); on the unchanged tree the registered
	// bounds finish well inside it
	budget := spec.DeadlineS
	if budget == 0 {
		budget = 1500
		if *tier == "thorough" {
			budget = 7200
		}
	}
	cfg.Deadline = time.Now().Add(time.Duration(budget) * time.Second)
	bs := spec.Quick
	if *tier == "thorough" {
		bs = map[string]int{}
		for k, v := range spec.Quick {
			bs[k] = v
		}
		for k, v := range spec.Thorough {
			bs[k] = v
		}
	}
	for k, v := range bs {
		cfg.Bounds[k] = v
	}
	fns := ld.Harnesses(spec.Prefix)
	for _, p := range spec.ExtraPrefixes {
		fns = append(fns, ld.Harnesses(p)...)
	}
	if len(fns) == 0 {
		fmt.Printf("UNDECIDED property=%s reason=no-harness\n", prop)
		return 0
	}
	jobs := harnessJobs(fns)
	if spec.Workers > 0 && spec.Workers < *workers {
		*workers = spec.Workers // memory-heavy harnesses: fewer engines and solvers at a time
	}
	reps := runJobs(ld, jobs, cfg, *workers)
	sort.Slice(reps, func(i, j int) bool { return reps[i].Name < reps[j].Name })
	if *verbose {
		for _, r := range reps {
			printReport(r, false)
		}
	}
	var undecided []string
	// ----- replay candidates
	known := loadKnown()
	results := replayAll(ld, reps, cfg)
	violations, knownHits := 0, 0
	var knownLines []string
	replayDir := filepath.Join(verifRoot(), "replay", prop)
	ri := 0
	for ridx, r := range reps {
		_ = ridx
		for _, v := range r.Violations {
			if ri >= len(results) {
				break
			}
			rr := results[ri]
			ri++
			owner := prop
			if o := idOwner(v.ID); o != "" && o != prop && v.Kind == "assert" {
				// an assertion that belongs to another property (shared harness): that
				// property's own check reports it
				continue
			}
			if reproduced(v.Kind, v.ID, rr) {
				if kf := matchKnown(known, owner, r.Name, v.ID); kf != nil {
					knownHits++
					line := fmt.Sprintf("KNOWN-FINDING: property=%s %s [harness=%s obligation=%s]", owner, kf.What, r.Name, v.ID)
					knownLines = append(knownLines, line)
					continue
				}
				violations++
				os.MkdirAll(replayDir, 0o755)
				path := filepath.Join(replayDir, fmt.Sprintf("%s-%d.json", strings.ReplaceAll(r.Name, "#", "_"), violations))
				tf := tapeFor(r, v.Tape)
				tf.Property, tf.Obligation, tf.Kind, tf.Where = prop, v.ID, v.Kind, v.Where
				b, _ := json.MarshalIndent(tf, "", " ")
				os.WriteFile(path, b, 0o644)
				fmt.Printf("VIOLATION property=%s replay=%s\n", prop, path)
				fmt.Printf("  harness=%s obligation=%s:%s at %s native=%s %s\n", r.Name, v.Kind, v.ID, v.Where, rr.Status, rr.Detail)
			} else {
				undecided = append(undecided, fmt.Sprintf("counterexample not reproduced natively: harness=%s obligation=%s:%s native=%s %s", r.Name, v.Kind, v.ID, rr.Status, truncate(rr.Detail, 200)))
			}
		}
	}
	seen := map[string]bool{}
	for _, l := range knownLines {
		if !seen[l] {
			seen[l] = true
			fmt.Println(l)
		}
	}
	// ----- translator validation on sampled paths
	validated, mismatched := 0, 0
	if !*noValidate {
		var items []replayItem
		type sk struct{ r, s int }
		idx := map[string]sk{}
		for ri, r := range reps {
			for si, s := range r.Samples {
				name := fmt.Sprintf("sample_%03d_%03d.json", ri, si)
				items = append(items, replayItem{pkg: r.Pkg, tape: tapeFor(r, s.Tape), name: name})
				idx[name] = sk{ri, si}
			}
		}
		res, err := runNative(ld, items, false)
		if err != nil {
			undecided = append(undecided, "translator validation could not run: "+err.Error())
		}
		names := make([]string, 0, len(res))
		for n := range res {
			names = append(names, n)
		}
		sort.Strings(names)
		for _, n := range names {
			k := idx[n]
			rr := res[n]
			want := reps[k.r].Samples[k.s].Obs
			if rr.Status == "ok" && obsEqual(want, rr.Obs) {
				validated++
			} else if rr.Status == "assert" && obsPrefix(want, rr.Obs) {
				// a sampled path that runs into a (separately reported) failing assertion
				validated++
			} else {
				mismatched++
				undecided = append(undecided, fmt.Sprintf("translator validation mismatch: harness=%s native=%s %s want=%v have=%v",
					reps[k.r].Name, rr.Status, truncate(rr.Detail, 160), truncateObs(want), truncateObsS(rr.Obs)))
			}
		}
	}
	// ----- vacuity and engine-side trouble
	reachAll := map[string]int{}
	for _, r := range reps {
		for k, v := range r.Reach {
			reachAll[k] += v
		}
		if r.Paths == 0 && len(r.Violations) == 0 {
			undecided = append(undecided, "harness explored no complete path: "+r.Name)
		}
		for k, n := range r.Unsupported {
			undecided = append(undecided, fmt.Sprintf("unsupported x%d in %s: %s", n, r.Name, k))
		}
		if r.Unknowns > 0 {
			undecided = append(undecided, fmt.Sprintf("solver returned unknown %d times in %s", r.Unknowns, r.Name))
		}
		if r.UnwindHits > 0 {
			undecided = append(undecided, fmt.Sprintf("unwinding/step limit hit %d times in %s (bound too small for the loop limits)", r.UnwindHits, r.Name))
		}
		if r.PathBudgetHit {
			undecided = append(undecided, "path budget exhausted in "+r.Name)
		}
	}
	for id := range staticReachIDs(fns) {
		if reachAll[id] == 0 {
			undecided = append(undecided, "vacuity: marker never reached: "+id)
		}
	}
	sort.Strings(undecided)
	for _, u := range undecided {
		fmt.Printf("UNDECIDED property=%s %s\n", prop, u)
	}
	wall := time.Since(t0)
	writeEvidence(prop, *tier, seed, reps, fns, spec, wall, validated, violations, knownHits, undecided, map[string]interface{}{
		"load_s": loadTime.Seconds(), "mismatched": mismatched, "bounds": cfg.Bounds, "solver": cfg.SolverName, "timeout_ms": cfg.TimeoutMs,
	})
	totalPaths, totalObl, totalDis := 0, 0, 0
	for _, r := range reps {
		totalPaths += r.Paths
		totalObl += r.Obligations
		totalDis += r.Discharged
	}
	fmt.Printf("%s tier=%s harnesses=%d paths=%d obligations=%d discharged=%d violations=%d known=%d undecided=%d validated=%d wall=%.1fs\n",
		prop, *tier, len(reps), totalPaths, totalObl, totalDis, violations, knownHits, len(undecided), validated, wall.Seconds())
	if violations > 0 {
		return 1
	}
	return 0
}

// idOwner: assertion ids are prefixed with the property they state ("C07.handlers...").
func idOwner(id string) string {
	if len(id) >= 4 && id[0] == 'C' && id[1] >= '0' && id[1] <= '9' && id[2] >= '0' && id[2] <= '9' && id[3] == '.' {
		return id[:3]
	}
	return ""
}

func truncate(s string, n int) string {
	if len(s) > n {
		return s[:n] + "..."
	}
	return s
}

func truncateObs(o []ObsValue) string {
	var ps []string
	for _, x := range o {
		ps = append(ps, x.Tag+"="+truncate(x.Val, 40))
	}
	return truncate(strings.Join(ps, ";"), 400)
}

func truncateObsS(o []string) string {
	var ps []string
	for _, x := range o {
		ps = append(ps, truncate(x, 60))
	}
	return truncate(strings.Join(ps, ";"), 400)
}

func obsEqual(want []ObsValue, have []string) bool {
	if len(want) != len(have) {
		return false
	}
	return obsPrefix2(want, have, len(want))
}

// obsPrefix: the native run stopped at a failing assertion; everything before must agree.
func obsPrefix(want []ObsValue, have []string) bool {
	if len(have) == 0 || len(have) > len(want) {
		return false
	}
	return obsPrefix2(want, have, len(have)-1)
}

func obsPrefix2(want []ObsValue, have []string, n int) bool {
	for i := 0; i < n; i++ {
		if want[i].Tag+"="+want[i].Val != have[i] {
			return false
		}
	}
	return true
}

func writeEvidence(prop, tier string, seed int, reps []*HarnessReport, fns []*ssa.Function, spec CheckSpec, wall time.Duration,
	validated, violations, knownHits int, undecided []string, extra map[string]interface{}) {
	states, trans, obl, dis, queries := 0, 0, 0, 0, 0
	var solverT float64
	funcs := map[string]bool{}
	intr := map[string]int{}
	notes := map[string]int{}
	assumes := map[string]int{}
	reach := map[string]int{}
	var samples []interface{}
	perH := []map[string]interface{}{}
	for _, r := range reps {
		states += r.Paths
		trans += r.Steps
		obl += r.Obligations
		dis += r.Discharged
		queries += r.SolverStats.Queries
		solverT += r.SolverStats.Time.Seconds()
		for f := range r.Funcs {
			funcs[f] = true
		}
		for k, v := range r.Intrinsics {
			if strings.HasSuffix(k, ".init") {
				continue
			}
			intr[k] += v
		}
		for k, v := range r.Notes {
			notes[k] += v
		}
		for k, v := range r.Assumes {
			assumes[k] += v
		}
		for k, v := range r.Reach {
			reach[k] += v
		}
		for i, s := range r.Samples {
			if i < 2 && len(samples) < 24 {
				samples = append(samples, map[string]interface{}{"harness": r.Name, "tape": s.Tape, "observations": s.Obs})
			}
		}
		perH = append(perH, map[string]interface{}{"harness": r.Name, "paths": r.Paths, "ssa_instructions": r.Steps, "obligations": r.Obligations,
			"discharged": r.Discharged, "candidates": len(r.Violations), "queries": r.SolverStats.Queries, "solver_s": r.SolverStats.Time.Seconds(),
			"merged_calls": r.Merged, "wall_s": r.Wall.Seconds(), "bounds": r.Bounds})
	}
	if len(samples) == 0 {
		samples = append(samples, map[string]interface{}{"note": "no path sample available"})
	}
	var fl []string
	for f := range funcs {
		fl = append(fl, f)
	}
	sort.Strings(fl)
	cov := map[string]interface{}{
		"states":                        states,
		"transitions":                   trans,
		"traces_validated_against_impl": validated,
		"samples":                       samples,
		"obligations":                   obl,
		"discharged":                    dis,
		"queries":                       queries,
		"solver_time_s":                 solverT,
		"functions_encoded":             fl,
		"intrinsics":                    intr,
		"engine_notes":                  notes,
		"harness_assumptions":           assumes,
		"reach_witnesses":               reach,
		"per_harness":                   perH,
		"undecided":                     undecided,
		"known_findings_matched":        knownHits,
		"outside_the_claim":             spec.Outside,
		"explanation":                   "states = feasible paths explored symbolically over the SSA of the current /repo tree; transitions = SSA instructions executed along them; every assertion / panic site on every path is a solver obligation (unsat = holds for all values within the bounds); traces_validated_against_impl = sampled paths whose solver model was replayed natively with identical observations",
	}
	for k, v := range extra {
		cov[k] = v
	}
	ev := map[string]interface{}{
		"property_id": prop,
		"tier":        tier,
		"seed":        seed,
		"level":       "model_checking",
		"coverage":    cov,
		"assumptions": spec.Assumptions,
		"wall_s":      wall.Seconds(),
		"violations":  violations,
	}
	if states == 0 {
		// keep the file schema-valid even when nothing could be explored
		cov["states"] = 0
		ev["level"] = "other"
	}
	b, _ := json.MarshalIndent(ev, "", " ")
	os.MkdirAll(filepath.Join(verifRoot(), "evidence"), 0o755)
	os.WriteFile(filepath.Join(verifRoot(), "evidence", prop+".json"), b, 0o644)
}

// cmdReplay runs one stored tape natively and reports whether the violation reproduces.
func cmdReplay(args []string) int {
	if len(args) < 1 {
		fmt.Println("usage: gosym replay <tape.json>")
		return 2
	}
	b, err := os.ReadFile(args[0])
	if err != nil {
		fmt.Println(err)
		return 2
	}
	var tf TapeFile
	if err := json.Unmarshal(b, &tf); err != nil {
		fmt.Println(err)
		return 2
	}
	ld, err := Load(envOr("VP_REPO", "/repo"), filepath.Join(verifRoot(), "harness"))
	if err != nil {
		fmt.Println("load error:", err)
		return 2
	}
	pkg := tf.Pkg
	if pkg == "" {
		name := tf.Harness
		if i := strings.IndexByte(name, '#'); i >= 0 {
			name = name[:i]
		}
		for _, fn := range ld.Harnesses(name) {
			if fn.Name() == name {
				pkg = fn.Pkg.Pkg.Path()
			}
		}
	}
	res, err := runNative(ld, []replayItem{{pkg: pkg, tape: tf, name: "tape.json"}}, false)
	if err != nil {
		fmt.Println("replay error:", err)
		return 2
	}
	rr := res["tape.json"]
	fmt.Printf("native result: status=%s detail=%s\n", rr.Status, rr.Detail)
	for _, o := range rr.Obs {
		fmt.Println("  obs", truncate(o, 200))
	}
	if reproduced(tf.Kind, tf.Obligation, rr) {
		fmt.Printf("REPRODUCED property=%s obligation=%s:%s\n", tf.Property, tf.Kind, tf.Obligation)
		return 1
	}
	fmt.Println("not reproduced")
	return 0
}
