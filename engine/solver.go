package main

// Long-lived SMT solver process (z3 -in / cvc5 --incremental) fed with SMT-LIB2 text.
// Every non-leaf term is introduced once as a define-fun (global declarations), so that
// assertions are short and the DAG is shared.

import (
	"bufio"
	"fmt"
	"io"
	"os"
	"os/exec"
	"strconv"
	"strings"
	"time"
)

type SolverStats struct {
	Queries       int
	Sat           int
	Unsat         int
	Unknown       int
	Errors        int
	Time          time.Duration
	MaxQuery      time.Duration
	SendTime      time.Duration
	Bytes         int
	GetValueCalls int
}

type Solver struct {
	name    string
	cmd     *exec.Cmd
	in      *bufio.Writer
	out     *bufio.Reader
	tm      *TermManager
	defined map[int]bool
	declV   map[string]bool
	declA   map[string]bool
	declF   map[string]bool
	declS   map[string]bool
	Stats   SolverStats
	log     io.Writer
	depth   int
	timeout int // ms
	dead    bool
	lastErr string
}

func solverCommand(name string, timeoutMs int) []string {
	switch name {
	case "z3":
		return []string{"/usr/bin/z3", "-in", "-smt2"}
	case "z3-new":
		return []string{"z3-new", "-in", "-smt2"}
	case "cvc5":
		return []string{"cvc5", "--incremental", "--lang=smt2", "--global-declarations", "--produce-models", fmt.Sprintf("--tlimit-per=%d", timeoutMs)}
	}
	panic("unknown solver " + name)
}

func NewSolver(name string, tm *TermManager, timeoutMs int, logPath string) (*Solver, error) {
	args := solverCommand(name, timeoutMs)
	cmd := exec.Command(args[0], args[1:]...)
	stdin, err := cmd.StdinPipe()
	if err != nil {
		return nil, err
	}
	stdout, err := cmd.StdoutPipe()
	if err != nil {
		return nil, err
	}
	cmd.Stderr = cmd.Stdout
	if err := cmd.Start(); err != nil {
		return nil, err
	}
	s := &Solver{name: name, cmd: cmd, in: bufio.NewWriterSize(stdin, 1<<16), out: bufio.NewReaderSize(stdout, 1<<16), tm: tm,
		defined: map[int]bool{}, declV: map[string]bool{}, declA: map[string]bool{}, declF: map[string]bool{}, declS: map[string]bool{}, timeout: timeoutMs}
	if logPath != "" {
		f, err := os.Create(logPath)
		if err == nil {
			s.log = f
		}
	}
	if name != "cvc5" {
		s.send("(set-option :global-declarations true)")
		s.send(fmt.Sprintf("(set-option :timeout %d)", timeoutMs))
	}
	s.send("(set-option :produce-models true)")
	if name == "cvc5" {
		s.send("(set-logic ALL)")
	}
	return s, nil
}

func (s *Solver) Close() {
	if s.cmd != nil && s.cmd.Process != nil {
		s.send("(exit)")
		s.in.Flush()
		done := make(chan struct{})
		go func() { s.cmd.Wait(); close(done) }()
		select {
		case <-done:
		case <-time.After(500 * time.Millisecond):
			s.cmd.Process.Kill()
		}
	}
}

func (s *Solver) send(line string) {
	if s.log != nil {
		io.WriteString(s.log, line+"\n")
	}
	t0 := time.Now()
	s.in.WriteString(line)
	s.in.WriteByte('\n')
	s.Stats.SendTime += time.Since(t0)
	s.Stats.Bytes += len(line) + 1
}

func sortStr(w int) string {
	if w == 0 {
		return "Bool"
	}
	return "(_ BitVec " + strconv.Itoa(w) + ")"
}

func constStr(t *Term) string {
	if t.w == 0 {
		if t.val == 1 {
			return "true"
		}
		return "false"
	}
	if t.w%4 == 0 {
		return fmt.Sprintf("#x%0*x", t.w/4, t.val)
	}
	return fmt.Sprintf("(_ bv%d %d)", t.val, t.w)
}

func (s *Solver) ref(t *Term) string {
	switch t.op {
	case OpConst:
		return constStr(t)
	case OpVar:
		if !s.declV[t.name] {
			s.declV[t.name] = true
			s.send("(declare-const " + t.name + " " + sortStr(t.w) + ")")
		}
		return t.name
	}
	s.define(t)
	return "n" + strconv.Itoa(t.id)
}

func (s *Solver) define(t *Term) {
	if s.defined[t.id] {
		return
	}
	// children first (recursion depth is bounded by term depth; Go stacks grow)
	refs := make([]string, len(t.args))
	for i, a := range t.args {
		refs[i] = s.ref(a)
	}
	var body string
	switch t.op {
	case OpZExt:
		body = fmt.Sprintf("((_ zero_extend %d) %s)", t.w-t.args[0].w, refs[0])
	case OpSExt:
		body = fmt.Sprintf("((_ sign_extend %d) %s)", t.w-t.args[0].w, refs[0])
	case OpExtract:
		body = fmt.Sprintf("((_ extract %d %d) %s)", t.hi, t.lo, refs[0])
	case OpSelect:
		if !s.declA[t.name] {
			s.declA[t.name] = true
			s.send("(declare-const " + t.name + " (Array (_ BitVec 64) (_ BitVec 8)))")
		}
		body = "(select " + t.name + " " + refs[0] + ")"
	case OpUF:
		if !s.declF[t.name] {
			s.declF[t.name] = true
			sig := s.tm.ufs[t.name]
			var as []string
			for _, w := range sig.argW {
				as = append(as, sortStr(w))
			}
			s.send("(declare-fun " + t.name + " (" + strings.Join(as, " ") + ") " + sortStr(sig.resW) + ")")
		}
		if len(refs) == 0 {
			body = t.name
		} else {
			body = "(" + t.name + " " + strings.Join(refs, " ") + ")"
		}
	case OpStrInRe:
		if !s.declS[t.args[0].name] {
			// handled by the string encoder (regex.go); name carries the full SMT text
		}
		body = t.name
	default:
		n, ok := opNames[t.op]
		if !ok {
			panic(fmt.Sprintf("no printer for op %d", t.op))
		}
		body = "(" + n + " " + strings.Join(refs, " ") + ")"
	}
	s.defined[t.id] = true
	s.send("(define-fun n" + strconv.Itoa(t.id) + " () " + sortStr(t.w) + " " + body + ")")
}

func (s *Solver) Push() {
	s.depth++
	s.send("(push 1)")
}

func (s *Solver) Pop() {
	s.depth--
	s.send("(pop 1)")
}

func (s *Solver) Assert(t *Term) {
	if t.IsTrue() {
		return
	}
	s.send("(assert " + s.ref(t) + ")")
}

func (s *Solver) Raw(line string) { s.send(line) }

type SatResult int

const (
	Sat SatResult = iota
	Unsat
	Unknown
)

func (r SatResult) String() string { return [...]string{"sat", "unsat", "unknown"}[r] }

func (s *Solver) readLine() (string, error) {
	line, err := s.out.ReadString('\n')
	return strings.TrimSpace(line), err
}

// Check runs (check-sat). Any "(error" line makes the answer Unknown.
func (s *Solver) Check() SatResult {
	if s.dead {
		return Unknown
	}
	start := time.Now()
	s.send("(check-sat)")
	s.in.Flush()
	// hard stop: a solver that does not honour its own timeout is killed (the context is lost
	// and every later answer is "unknown")
	watchdog := time.AfterFunc(time.Duration(s.timeout)*time.Millisecond+8*time.Second, func() {
		if s.cmd != nil && s.cmd.Process != nil {
			s.cmd.Process.Kill()
		}
	})
	defer watchdog.Stop()
	res := Unknown
	sawErr := false
	for {
		line, err := s.readLine()
		if err != nil {
			s.dead = true
			s.lastErr = "solver died: " + err.Error()
			sawErr = true
			break
		}
		if line == "" {
			continue
		}
		if strings.HasPrefix(line, "(error") {
			sawErr = true
			s.lastErr = line
			if s.log != nil {
				io.WriteString(s.log, "; "+line+"\n")
			}
			continue
		}
		if line == "sat" {
			res = Sat
			break
		}
		if line == "unsat" {
			res = Unsat
			break
		}
		if line == "unknown" || strings.HasPrefix(line, "timeout") {
			res = Unknown
			break
		}
		// other chatter (warnings): ignore
	}
	d := time.Since(start)
	s.Stats.Queries++
	s.Stats.Time += d
	if d > s.Stats.MaxQuery {
		s.Stats.MaxQuery = d
	}
	if sawErr {
		s.Stats.Errors++
		res = Unknown
	}
	switch res {
	case Sat:
		s.Stats.Sat++
	case Unsat:
		s.Stats.Unsat++
	default:
		s.Stats.Unknown++
	}
	return res
}

// CheckWith checks satisfiability of the current context plus extra assertions (push/pop).
func (s *Solver) CheckWith(extra ...*Term) SatResult {
	for _, e := range extra {
		if e.IsFalse() {
			return Unsat
		}
	}
	s.Push()
	for _, e := range extra {
		s.Assert(e)
	}
	r := s.Check()
	s.Pop()
	return r
}

// readSexpr reads one balanced s-expression from the solver.
func (s *Solver) readSexpr() (string, error) {
	var sb strings.Builder
	depth := 0
	started := false
	for {
		line, err := s.out.ReadString('\n')
		if err != nil {
			return sb.String(), err
		}
		inStr := false
		for _, c := range line {
			if c == '"' {
				inStr = !inStr
			}
			if inStr {
				continue
			}
			if c == '(' {
				depth++
				started = true
			} else if c == ')' {
				depth--
			}
		}
		sb.WriteString(line)
		if started && depth <= 0 {
			return sb.String(), nil
		}
		if !started && strings.TrimSpace(line) != "" {
			return sb.String(), nil
		}
	}
}

// GetValues evaluates terms in the current model (call directly after a Sat Check in the same
// context).  Returns values in order; Bool as 0/1.
func (s *Solver) GetValues(ts []*Term) ([]uint64, error) {
	t0 := time.Now()
	s.Stats.GetValueCalls++
	defer func() { s.Stats.SendTime += time.Since(t0) }()
	out := make([]uint64, len(ts))
	var q []int
	var refs []string
	for i, t := range ts {
		if t.IsConst() {
			out[i] = t.val
			continue
		}
		if t.w > 64 {
			return nil, fmt.Errorf("GetValues: width %d", t.w)
		}
		q = append(q, i)
		refs = append(refs, s.ref(t))
	}
	for len(q) > 0 {
		n := len(q)
		if n > 200 {
			n = 200
		}
		s.send("(get-value (" + strings.Join(refs[:n], " ") + "))")
		s.in.Flush()
		txt, err := s.readSexpr()
		if err != nil {
			return nil, err
		}
		if strings.Contains(txt, "(error") {
			return nil, fmt.Errorf("get-value: %s", txt)
		}
		vals, err := parseValueList(txt)
		if err != nil {
			return nil, fmt.Errorf("get-value parse: %v in %q", err, txt)
		}
		if len(vals) != n {
			return nil, fmt.Errorf("get-value: expected %d values, got %d: %q", n, len(vals), txt)
		}
		for j := 0; j < n; j++ {
			out[q[j]] = vals[j]
		}
		q = q[n:]
		refs = refs[n:]
	}
	return out, nil
}

// parseValueList parses "((a #x01) (b true) (c (_ bv3 5)))" and returns the values in order.
func parseValueList(txt string) ([]uint64, error) {
	toks := tokenize(txt)
	pos := 0
	var parse func() (interface{}, error)
	parse = func() (interface{}, error) {
		if pos >= len(toks) {
			return nil, fmt.Errorf("eof")
		}
		t := toks[pos]
		pos++
		if t == "(" {
			var l []interface{}
			for pos < len(toks) && toks[pos] != ")" {
				e, err := parse()
				if err != nil {
					return nil, err
				}
				l = append(l, e)
			}
			pos++
			return l, nil
		}
		return t, nil
	}
	root, err := parse()
	if err != nil {
		return nil, err
	}
	lst, ok := root.([]interface{})
	if !ok {
		return nil, fmt.Errorf("not a list")
	}
	var out []uint64
	for _, e := range lst {
		pair, ok := e.([]interface{})
		if !ok || len(pair) != 2 {
			return nil, fmt.Errorf("bad pair")
		}
		v, err := parseValue(pair[1])
		if err != nil {
			return nil, err
		}
		out = append(out, v)
	}
	return out, nil
}

func parseValue(v interface{}) (uint64, error) {
	switch x := v.(type) {
	case string:
		switch {
		case x == "true":
			return 1, nil
		case x == "false":
			return 0, nil
		case strings.HasPrefix(x, "#x"):
			return strconv.ParseUint(x[2:], 16, 64)
		case strings.HasPrefix(x, "#b"):
			return strconv.ParseUint(x[2:], 2, 64)
		}
		return 0, fmt.Errorf("bad value %q", x)
	case []interface{}:
		// (_ bvN w)
		if len(x) == 3 {
			if s0, ok := x[0].(string); ok && s0 == "_" {
				if s1, ok := x[1].(string); ok && strings.HasPrefix(s1, "bv") {
					return strconv.ParseUint(s1[2:], 10, 64)
				}
			}
		}
	}
	return 0, fmt.Errorf("bad value %v", v)
}

func tokenize(s string) []string {
	var toks []string
	i := 0
	for i < len(s) {
		c := s[i]
		switch {
		case c == '(' || c == ')':
			toks = append(toks, string(c))
			i++
		case c == ' ' || c == '\n' || c == '\t' || c == '\r':
			i++
		case c == '"':
			j := i + 1
			for j < len(s) && s[j] != '"' {
				j++
			}
			toks = append(toks, s[i:min(j+1, len(s))])
			i = j + 1
		case c == '|':
			j := i + 1
			for j < len(s) && s[j] != '|' {
				j++
			}
			toks = append(toks, s[i:min(j+1, len(s))])
			i = j + 1
		default:
			j := i
			for j < len(s) && !strings.ContainsRune("() \n\t\r", rune(s[j])) {
				j++
			}
			toks = append(toks, s[i:j])
			i = j
		}
	}
	return toks
}
