package main

import (
	"go/types"
	"strings"

	"golang.org/x/tools/go/ssa"
)

var sentinelText = map[string]string{
	"io.EOF": "EOF", "io.ErrUnexpectedEOF": "unexpected EOF", "io.ErrShortWrite": "short write",
	"io.ErrShortBuffer": "short buffer", "io.ErrNoProgress": "multiple Read calls return no data or error",
	"bufio.ErrNegativeCount": "bufio: negative count", "bufio.ErrBufferFull": "bufio: buffer full",
	"bufio.errNegativeRead": "bufio: reader returned negative count from Read",
}

func (e *Engine) globalObj(g *ssa.Global) *Object {
	if o, ok := e.globals[g]; ok {
		return o
	}
	et := g.Type().(*types.Pointer).Elem()
	o := e.newObject(g.String(), et)
	e.globals[g] = o
	e.globalOf[o] = g
	return o
}

// globalDefault gives the content of a global that no init function has written.
func (e *Engine) globalDefault(o *Object) (Value, bool) {
	g, ok := e.globalOf[o]
	if !ok {
		return nil, false
	}
	et := o.typ
	path := ""
	if g.Pkg != nil {
		path = g.Pkg.Pkg.Path()
	}
	if !strings.HasPrefix(path, repoModule) {
		if it, isI := et.Underlying().(*types.Interface); isI && it.NumMethods() == 1 && it.Method(0).Name() == "Error" {
			name := g.String()
			if s, ok := e.sentinel[name]; ok {
				return &IfaceV{typ: e.errorType(), val: s}, true
			}
			txt, ok := sentinelText[name]
			if !ok {
				txt = name
			}
			e.nextOpq++
			s := &OpaqueV{kind: "error", id: e.nextOpq, data: &errData{format: txt}, text: e.mkStr(txt)}
			e.sentinel[name] = s
			return &IfaceV{typ: e.errorType(), val: s}, true
		}
	}
	if !strings.HasPrefix(path, repoModule) && path != "" {
		// a library global whose initialiser the engine did not run: only known tables are provided,
		// anything else must not silently read as zero
		switch g.String() {
		case "strings.asciiSpace", "bytes.asciiSpace":
			v := make([]*Term, 256)
			for i := range v {
				v[i] = e.tm.BV(0, 8)
			}
			for _, c := range []byte{'\t', '\n', '\v', '\f', '\r', ' '} {
				v[c] = e.tm.BV(1, 8)
			}
			return ArrExpr(&ArrVec{v}), true
		}
		_, isBasic := et.Underlying().(*types.Basic)
		if stt, isStruct := et.Underlying().(*types.Struct); isStruct && stt.NumFields() == 0 {
			isBasic = true // empty struct (encoding/binary.BigEndian): zero is the value
		}
		if !isBasic {
			if !e.lenient {
				panic(unsupported("read of library global without initialiser model: " + g.String()))
			}
		}
	}
	return e.valueToContent(e.zero(et)), true
}

// initGlobals runs the package initialisers of the repository packages the harness package
// depends on (in dependency order, through the synthetic init functions).
func (e *Engine) initGlobals(st *State) {}

func (e *Engine) runInit(st *State, pkg *ssa.Package) *State {
	initFn := pkg.Func("init")
	if initFn == nil {
		return st
	}
	savedPanics := e.panicsAreViolations
	e.panicsAreViolations = false
	e.lenient = true
	defer func() {
		e.panicsAreViolations = savedPanics
		e.lenient = false
	}()
	outs := e.callFn(st, initFn, nil, nil, nil)
	if len(outs) != 1 {
		panic(unsupported("package init did not produce exactly one outcome: " + pkg.Pkg.Path()))
	}
	return outs[0].st
}
