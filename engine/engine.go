package main

// Engine: exploration driver, solver synchronisation, obligations.

import (
	"fmt"
	"go/token"
	"go/types"
	"os"
	"runtime"
	"runtime/debug"
	"sort"
	"strconv"
	"strings"
	"sync/atomic"
	"time"

	"golang.org/x/tools/go/ssa"
)

type Config struct {
	Tier            string
	SolverName      string
	TimeoutMs       int
	MaxLoop         int // unwinding limit per loop header and frame
	MaxSteps        int // per path
	MaxPaths        int // per harness
	MaxDepth        int
	DefaultStrBound int
	MaxViolPerID    int
	Bounds          map[string]int
	Owner           string // check mode: assertions whose id names another property are observed, not enforced
	NoMerge         bool
	EagerFeas       bool
	NoPrune         bool
	Trace           bool
	SolverLog       string
	Deadline        time.Time
}

type Violation struct {
	Harness  string
	ID       string // assertion id or panic kind
	Kind     string // assert | panic
	Where    string
	Tape     []TapeValue
	PathNote string
}

type TapeValue struct {
	Kind  string `json:"kind"`
	U     uint64 `json:"u,omitempty"`
	Bytes string `json:"bytes,omitempty"` // hex
	Cap   int    `json:"cap,omitempty"`
}

type PathSample struct {
	Tape   []TapeValue
	Obs    []ObsValue
	pathNo int
}

type ObsValue struct {
	Tag string `json:"tag"`
	Val string `json:"val"`
}

type HarnessReport struct {
	Name            string
	Pkg             string
	Owner           string
	Paths           int
	Steps           int
	Obligations     int
	Discharged      int
	Violations      []Violation
	Unsupported     map[string]int
	Unknowns        int
	UnwindHits      int
	Reach           map[string]int
	AssertIDs       map[string]int
	Notes           map[string]int
	Funcs           map[string]bool
	Intrinsics      map[string]int
	Samples         []PathSample
	Wall            time.Duration
	SolverStats     SolverStats
	PathBudgetHit   bool
	InfeasiblePaths int
	ModelQueries    int
	Merged          int
	Bounds          map[string]int
	Assumes         map[string]int
}

type Engine struct {
	tm                  *TermManager
	solver              *Solver
	asserted            []*PC
	prog                *ssa.Program
	ld                  *Loaded
	cfg                 Config
	arrCache            map[arrReadKey]*Term
	nextObj             int
	nextOpq             int
	fnInfos             map[*ssa.Function]*fnInfo
	globals             map[*ssa.Global]*Object
	rep                 *HarnessReport
	violSeen            map[string]int
	depth               int
	noMerge             map[*ssa.Function]bool
	sentinel            map[string]*OpaqueV
	panicsAreViolations bool
	strictSlice         bool
	sampleEvery         int
	allocLog            []*Term
	globalOf            map[*Object]*ssa.Global
	lenient             bool
	curWhere            string
	fmtDeps             map[string][]*Term
	hints               map[*Term][2]uint64
	jsonNames           map[string]string
	docs                map[*Object]*PtrV
	cfgType             types.Type
	stop                atomic.Bool
	mergeLoss           bool // the last merge turned concrete lengths into symbolic ones
	harnessOpts         map[string]int
	lossyOK             bool // bound merge_lossy=1: byte-slice windows may become symbolic when outcomes are merged
	arrSyms             map[string]*ArrSym
	prefer              []*Term
	bcryptPairs         map[string]string
}

var repoRoot string

type unsupportedErr struct{ msg string }

func unsupported(msg string) unsupportedErr { return unsupportedErr{msg} }

type pathEnd struct{ reason string }

// parkReq: the current goroutine blocks forever; frames unwind up to the vpGo that started it.
type parkReq struct{}

var forkDebug = os.Getenv("VP_FORKS") != ""

// memStop is raised by the memory watchdog: the process stays below the budget (VP_MEM_GB,
// default 12, heap in use) and reports the truncated exploration as undecided instead of being killed.
var memStop atomic.Bool

func startMemWatchdog() {
	limit := uint64(12)
	if v, err := strconv.Atoi(os.Getenv("VP_MEM_GB")); err == nil && v > 0 {
		limit = uint64(v)
	}
	debug.SetMemoryLimit(int64(limit+limit/4) << 30) // the collector works harder near the budget
	go func() {
		var ms runtime.MemStats
		for {
			time.Sleep(2 * time.Second)
			runtime.ReadMemStats(&ms)
			if ms.HeapAlloc > limit<<30 {
				memStop.Store(true)
				return
			}
		}
	}()
}

type forkReq struct {
	target ssa.Value
	alts   []Alt
	split  bool // deliberate case split: outcomes must not be merged back
}

func NewEngine(ld *Loaded, cfg Config) (*Engine, error) {
	tm := NewTermManager()
	s, err := NewSolver(cfg.SolverName, tm, cfg.TimeoutMs, cfg.SolverLog)
	if err != nil {
		return nil, err
	}
	e := &Engine{tm: tm, solver: s, prog: ld.prog, ld: ld, cfg: cfg, arrCache: map[arrReadKey]*Term{},
		fnInfos: map[*ssa.Function]*fnInfo{}, globals: map[*ssa.Global]*Object{}, violSeen: map[string]int{},
		noMerge: map[*ssa.Function]bool{}, sentinel: map[string]*OpaqueV{}, panicsAreViolations: true,
		globalOf: map[*Object]*ssa.Global{}, fmtDeps: map[string][]*Term{}, hints: map[*Term][2]uint64{}, jsonNames: map[string]string{}, docs: map[*Object]*PtrV{}, arrSyms: map[string]*ArrSym{}, bcryptPairs: map[string]string{}}
	if e.cfg.Bounds == nil {
		e.cfg.Bounds = map[string]int{}
	}
	e.cfgType = ld.lookupType(repoModule+"/cmds/server/config", "ServerConfig")
	return e, nil
}

func (e *Engine) Close() { e.solver.Close() }

func (e *Engine) note(s string) {
	if e.rep != nil {
		e.rep.Notes[s]++
	}
}

func (e *Engine) bound(name string, def int) int {
	if v, ok := e.harnessOpts[name]; ok {
		return v // set by the harness itself (vpEngineOption)
	}
	if v, ok := e.cfg.Bounds[name]; ok {
		return v
	}
	return def
}

// ---------- solver synchronisation ----------

func (e *Engine) sync(pc *PC) {
	d := pc.depth()
	chain := make([]*PC, d)
	for p := pc; p != nil; p = p.parent {
		chain[p.n-1] = p
	}
	k := 0
	for k < len(e.asserted) && k < d && e.asserted[k] == chain[k] {
		k++
	}
	if pops := len(e.asserted) - k; pops > 0 {
		e.solver.send(fmt.Sprintf("(pop %d)", pops))
	}
	for i := k; i < d; i++ {
		e.solver.send("(push 1)")
		e.solver.Assert(chain[i].t)
	}
	e.asserted = chain
}

// feasible: can pc ∧ extra hold?  Unknown counts as feasible.
func (e *Engine) feasible(st *State, extra *Term) bool {
	if extra.IsTrue() {
		return true
	}
	if extra.IsFalse() {
		return false
	}
	e.sync(st.pc)
	t0 := time.Now()
	r := e.solver.CheckWith(extra)
	if d := time.Since(t0); d > 2*time.Second && os.Getenv("VP_SLOW") != "" {
		fmt.Printf("SLOW feasibility %.1fs %v at %s (term size %d, pc depth %d)\n", d.Seconds(), r, e.curWhere, extra.size, st.pc.depth())
		if os.Getenv("VP_SLOW") == "2" {
			fmt.Printf("   cond: %s\n", termStr(extra, 7))
		}
	}
	if r == Unknown {
		e.rep.Unknowns++
		return true
	}
	return r == Sat
}

// mustHold: is cond implied by the path condition?
func (e *Engine) mustHold(st *State, cond *Term) bool {
	if cond.IsTrue() {
		return true
	}
	if cond.IsFalse() {
		return false
	}
	e.sync(st.pc)
	return e.solver.CheckWith(e.tm.Not(cond)) == Unsat
}

func posString(fset *token.FileSet, p token.Pos) string {
	if !p.IsValid() {
		return "?"
	}
	pp := fset.Position(p)
	f := pp.Filename
	if repoRoot != "" && strings.HasPrefix(f, repoRoot+"/") {
		f = f[len(repoRoot)+1:]
	}
	return fmt.Sprintf("%s:%d", f, pp.Line)
}

func (e *Engine) where(instr ssa.Instruction) string {
	if instr == nil {
		return "?"
	}
	fn := instr.Parent()
	p := instr.Pos()
	if !p.IsValid() {
		// look for a neighbouring position
		if fn != nil {
			p = fn.Pos()
		}
	}
	name := "?"
	if fn != nil {
		name = fn.String()
	}
	return name + "@" + posString(e.prog.Fset, p)
}

// withFreshSolver asserts the path condition (plus extra) in a new solver process and, if it is
// satisfiable, runs fn with the model available.  Model construction in the long-lived solver
// is proportional to everything ever defined there; a fresh process only sees this path.
func (e *Engine) withFreshSolver(pc *PC, extra *Term, fn func() error) (SatResult, error) {
	fs, err := NewSolver(e.cfg.SolverName, e.tm, 4000, "")
	if err != nil {
		return Unknown, err
	}
	defer fs.Close()
	// a push keeps z3 in its incremental core (the one-shot tactic pipeline bit-blasts
	// everything up front and can take minutes on the same formula)
	fs.Push()
	for p := pc; p != nil; p = p.parent {
		fs.Assert(p.t)
	}
	if extra != nil {
		fs.Assert(extra)
	}
	r := fs.Check()
	e.rep.ModelQueries++
	if r != Sat {
		return r, nil
	}
	// witness shaping: soft preferences registered by the harness (vpPrefer)
	if len(e.prefer) > 0 {
		fs.Push()
		for _, p := range e.prefer {
			fs.Assert(p)
		}
		if fs.Check() != Sat {
			fs.Pop()
			fs.Check()
		}
	}
	saved := e.solver
	e.solver = fs
	defer func() { e.solver = saved }()
	return r, fn()
}

// extractTape evaluates the tape in the current model (solver must be in a sat state).
func (e *Engine) extractTape(st *State) ([]TapeValue, error) {
	entries := st.tape.slice()
	out := make([]TapeValue, len(entries))
	var scal []*Term
	for _, te := range entries {
		scal = append(scal, te.Term)
		if te.Cap != nil {
			scal = append(scal, te.Cap)
		}
	}
	vals, err := e.solver.GetValues(scal)
	if err != nil {
		return nil, err
	}
	vi := 0
	for i, te := range entries {
		v := vals[vi]
		vi++
		out[i].Kind = te.Kind
		switch te.Kind {
		case "bytes", "str":
			n := int(v)
			if n > te.Max {
				return nil, fmt.Errorf("model length %d exceeds bound %d", n, te.Max)
			}
			total := n
			if te.Cap != nil {
				c := int(vals[vi])
				vi++
				out[i].Cap = c
				if c > total {
					total = c
				}
			}
			idx := make([]*Term, total)
			for j := range idx {
				idx[j] = e.tm.Select(te.Arr, e.c64(uint64(j)))
			}
			bv, err := e.solver.GetValues(idx)
			if err != nil {
				return nil, err
			}
			b := make([]byte, total)
			for j := range b {
				b[j] = byte(bv[j])
			}
			out[i].Bytes = fmt.Sprintf("%x", b)
			out[i].U = uint64(n)
		default:
			out[i].U = v
		}
	}
	return out, nil
}

// obligation checks that cond holds on the current path; a feasible failure is recorded as a
// violation candidate (with a model), and the path continues under cond.  Returns false when the
// path cannot continue (cond infeasible).
func (e *Engine) obligation(st *State, cond *Term, kind, id string, instr ssa.Instruction) bool {
	e.rep.Obligations++
	if cond.IsTrue() {
		e.rep.Discharged++
		return true
	}
	e.sync(st.pc)
	neg := e.tm.Not(cond)
	e.solver.Push()
	if e.solver.log != nil {
		e.solver.send("; obligation " + kind + ":" + id)
	}
	e.solver.Assert(neg)
	t0 := time.Now()
	r := e.solver.Check()
	if d := time.Since(t0); d > 2*time.Second && os.Getenv("VP_SLOW") != "" {
		fmt.Printf("SLOW obligation %.1fs %v %s:%s (term size %d, pc depth %d)\n", d.Seconds(), r, kind, id, cond.size, st.pc.depth())
	}
	switch r {
	case Unsat:
		e.rep.Discharged++
	case Sat:
		key := kind + ":" + id
		if e.violSeen[key] < e.cfg.MaxViolPerID {
			var tape []TapeValue
			var err error
			e.prefer = nil
			if pv, ok := st.ghost["vp.prefer"].(*TupleV); ok {
				for _, p := range pv.v {
					e.prefer = append(e.prefer, p.(*Term))
				}
			}
			if len(e.prefer) > 0 {
				// witness shaping needs its own context
				_, err = e.withFreshSolver(st.pc, neg, func() error {
					var err error
					tape, err = e.extractTape(st)
					return err
				})
			}
			if tape == nil {
				// the long-lived solver is in the satisfying context right now
				tape, err = e.extractTape(st)
			}
			if err != nil || tape == nil {
				e.note(fmt.Sprintf("model extraction failed: %v", err))
			} else {
				e.violSeen[key]++
				e.rep.Violations = append(e.rep.Violations, Violation{Harness: e.rep.Name, ID: id, Kind: kind, Where: e.where(instr), Tape: tape})
			}
		} else {
			e.violSeen[key]++
		}
	default:
		e.rep.Unknowns++
		e.note("obligation undecided (solver unknown): " + kind + ":" + id)
	}
	e.solver.Pop()
	if cond.IsFalse() {
		return false
	}
	if r == Unsat {
		return true
	}
	// continue under cond if possible
	if !e.feasible(st, cond) {
		return false
	}
	st.assume(cond)
	return true
}

func (e *Engine) panicObligation(st *State, ok *Term, kind string, instr ssa.Instruction) {
	if ok.IsTrue() {
		return
	}
	if !e.panicsAreViolations {
		if !e.feasible(st, ok) {
			panic(pathEnd{"panic:" + kind})
		}
		st.assume(ok)
		return
	}
	if !e.obligation(st, ok, "panic", kind+"@"+e.where(instr), instr) {
		panic(pathEnd{"panic:" + kind})
	}
}

// ---------- exploration ----------

type work struct {
	fr *Frame
	st *State
}

func (e *Engine) info(fn *ssa.Function) *fnInfo {
	if fi, ok := e.fnInfos[fn]; ok {
		return fi
	}
	fi := &fnInfo{idx: map[ssa.Value]int{}}
	add := func(v ssa.Value) {
		fi.idx[v] = fi.n
		fi.n++
	}
	for _, p := range fn.Params {
		add(p)
	}
	for _, p := range fn.FreeVars {
		add(p)
	}
	for _, b := range fn.Blocks {
		for _, in := range b.Instrs {
			if v, ok := in.(ssa.Value); ok {
				add(v)
			}
		}
	}
	e.fnInfos[fn] = fi
	return fi
}

func (e *Engine) newFrame(fn *ssa.Function, args []Value, bind []Value) *Frame {
	fi := e.info(fn)
	fr := &Frame{fn: fn, info: fi, locals: make([]Value, fi.n), block: fn.Blocks[0], depth: e.depth}
	if len(args) != len(fn.Params) {
		panic(unsupported(fmt.Sprintf("call of %s with %d args, want %d", fn, len(args), len(fn.Params))))
	}
	for i, p := range fn.Params {
		fr.locals[fi.idx[p]] = args[i]
	}
	for i, p := range fn.FreeVars {
		fr.locals[fi.idx[p]] = bind[i]
	}
	return fr
}

func (e *Engine) runFrame(fr *Frame, st *State) (outs []Outcome) {
	stack := []work{{fr, st}}
	for len(stack) > 0 {
		w := stack[len(stack)-1]
		stack = stack[:len(stack)-1]
		if o, ok := e.runPath(w.fr, w.st, &stack); ok {
			outs = append(outs, o)
		}
	}
	return outs
}

type stepKind int

const (
	stepNext stepKind = iota
	stepReturn
	stepBranch
	stepEnd
)

// branch describes one continuation after an instruction.
type branch struct {
	st    *State // nil => derive from the current state with cond assumed
	cond  *Term
	apply func(fr *Frame, st *State)
	lazy  bool // forward branch: feasibility need not be decided now
}

type stepResult struct {
	kind     stepKind
	branches []branch
}

func (e *Engine) safeStep(fr *Frame, st *State) (res stepResult, endReason string, ended bool) {
	defer func() {
		if r := recover(); r != nil {
			switch x := r.(type) {
			case forkReq:
				var bs []branch
				fi := fr.info
				for _, al := range x.alts {
					al := al
					bs = append(bs, branch{cond: al.cond, apply: func(f *Frame, s *State) {
						f.locals[fi.idx[x.target]] = al.v
						if x.split {
							s.splits++
						}
					}})
				}
				res = stepResult{kind: stepBranch, branches: bs}
			case parkReq:
				// behave like a return of the current function; callers up to vpGo see the
				// park marker in the state and return as well
				st.ghost["vp.parked"] = e.tm.True
				fr.ret = e.zeroRet(fr.fn)
				res = stepResult{kind: stepReturn}
			case pathEnd:
				ended = true
				endReason = x.reason
			case unsupportedErr:
				ended = true
				endReason = "unsupported: " + x.msg
				where := "?"
				if fr.block != nil && fr.ip < len(fr.block.Instrs) {
					where = e.where(fr.block.Instrs[fr.ip])
				}
				e.rep.Unsupported[x.msg+" @ "+where]++
			default:
				panic(r)
			}
		}
	}()
	res = e.step(fr, st)
	return
}

func (e *Engine) zeroRet(fn *ssa.Function) Value {
	res := fn.Signature.Results()
	switch res.Len() {
	case 0:
		return nil
	case 1:
		return e.zero(res.At(0).Type())
	}
	return e.zero(res)
}

func (e *Engine) runPath(fr *Frame, st *State, stack *[]work) (Outcome, bool) {
	for {
		if _, parked := st.ghost["vp.parked"]; parked && !e.inHarnessFile(fr.fn) {
			// unwinding a parked goroutine
			fr.ret = e.zeroRet(fr.fn)
			return Outcome{st: st, ret: fr.ret}, true
		}
		if e.stop.Load() || memStop.Load() {
			e.rep.PathBudgetHit = true
			if memStop.Load() {
				e.note("memory budget reached: exploration truncated")
			} else {
				e.note("deadline reached: exploration truncated")
			}
			return Outcome{}, false
		}
		st.steps++
		e.rep.Steps++
		if st.steps > e.bound("max_steps", e.cfg.MaxSteps) {
			e.rep.UnwindHits++
			e.note("step limit reached in " + fr.fn.String())
			return Outcome{}, false
		}
		res, reason, ended := e.safeStep(fr, st)
		if ended {
			if e.cfg.Trace {
				fmt.Printf("  path end: %s\n", reason)
			}
			return Outcome{}, false
		}
		switch res.kind {
		case stepNext:
		case stepReturn:
			return Outcome{st: st, ret: fr.ret}, true
		case stepEnd:
			return Outcome{}, false
		case stepBranch:
			// keep feasible branches
			var live []branch
			for _, b := range res.branches {
				if b.st != nil {
					live = append(live, b)
					continue
				}
				if b.lazy && !e.cfg.EagerFeas && st.unchecked < e.bound("lazy_depth", 6) {
					if !b.cond.IsFalse() {
						live = append(live, b)
					}
					continue
				}
				if e.feasible(st, b.cond) {
					live = append(live, b)
				}
			}
			if len(live) == 0 {
				return Outcome{}, false
			}
			if len(live) > 1 && forkDebug {
				w := "?"
				if fr.block != nil && fr.ip < len(fr.block.Instrs) {
					w = e.where(fr.block.Instrs[fr.ip])
				} else if fr.block != nil && len(fr.block.Instrs) > 0 {
					w = e.where(fr.block.Instrs[len(fr.block.Instrs)-1])
				}
				e.note(fmt.Sprintf("fork x%d @ %s in %s", len(live), w, fr.fn.Name()))
			}
			if len(res.branches) > 0 && res.branches[0].st == nil {
				if res.branches[0].lazy && !e.cfg.EagerFeas && st.unchecked < e.bound("lazy_depth", 6) {
					st.unchecked++
				} else {
					st.unchecked = 0
				}
			}
			for i := len(live) - 1; i >= 1; i-- {
				b := live[i]
				nf := fr.clone()
				ns := b.st
				if ns == nil {
					ns = st.clone()
					ns.assume(b.cond)
				}
				if b.apply != nil {
					b.apply(nf, ns)
				}
				*stack = append(*stack, work{nf, ns})
			}
			b := live[0]
			if b.st != nil {
				st = b.st
			} else if len(live) > 1 {
				st = st.clone()
				st.assume(b.cond)
			} else {
				st.assume(b.cond)
			}
			if b.apply != nil {
				b.apply(fr, st)
			}
		}
	}
}

// RunHarness explores one harness function completely.
func (e *Engine) RunHarness(fn *ssa.Function, caseIdx int) *HarnessReport {
	start := time.Now()
	rep := &HarnessReport{Name: fn.Name(), Unsupported: map[string]int{}, Reach: map[string]int{}, AssertIDs: map[string]int{},
		Notes: map[string]int{}, Funcs: map[string]bool{}, Intrinsics: map[string]int{}, Bounds: map[string]int{}, Assumes: map[string]int{}}
	e.rep = rep
	rep.Owner = e.cfg.Owner
	e.harnessOpts = map[string]int{}
	if fn.Pkg != nil {
		rep.Pkg = fn.Pkg.Pkg.Path()
	}
	if !e.cfg.Deadline.IsZero() {
		t := time.AfterFunc(time.Until(e.cfg.Deadline), func() { e.stop.Store(true) })
		defer t.Stop()
	}
	st := &State{mem: newMem(), ghost: map[string]Value{}}
	e.initGlobals(st)
	var args []Value
	if len(fn.Params) == 1 {
		args = []Value{e.tm.BV(uint64(caseIdx), 64)}
		rep.Name = fmt.Sprintf("%s#%d", fn.Name(), caseIdx)
	}
	func() {
		defer func() {
			if r := recover(); r != nil {
				if u, ok := r.(unsupportedErr); ok {
					rep.Unsupported[u.msg]++
					return
				}
				panic(r)
			}
		}()
		if fn.Pkg != nil {
			st = e.runInit(st, fn.Pkg)
		}
		fr := e.newFrame(fn, args, nil)
		outs := e.runFrame(fr, st)
		for _, o := range outs {
			e.finishPath(o.st)
		}
	}()
	rep.Wall = time.Since(start)
	rep.SolverStats = e.solver.Stats
	return rep
}

// finishPath is called for every path that reaches the end of the harness.
func (e *Engine) finishPath(st *State) {
	e.sync(st.pc)
	if r := e.solver.Check(); r == Unsat {
		e.rep.InfeasiblePaths++
		return
	}
	e.rep.Paths++
	if e.rep.Paths > e.cfg.MaxPaths {
		e.rep.PathBudgetHit = true
	}
	n := e.sampleEvery
	if n <= 0 {
		n = 1
	}
	if len(e.rep.Samples) < e.bound("samples", 12) && (e.rep.Paths-1)%n == 0 {
		_, err := e.withFreshSolver(st.pc, nil, func() error {
			tape, obs, err := e.extractSample(st)
			if err == nil {
				e.rep.Samples = append(e.rep.Samples, PathSample{Tape: tape, Obs: obs, pathNo: e.rep.Paths})
			}
			return err
		})
		if err != nil {
			e.note("sample extraction failed: " + err.Error())
		}
	}
}

// extractSample evaluates tape and observations of a finished path in the current model with
// two get-value round trips (scalars and lengths first, then the bytes).
func (e *Engine) extractSample(st *State) ([]TapeValue, []ObsValue, error) {
	tapeE := st.tape.slice()
	obsE := st.obs.slice()
	var q1 []*Term
	for _, te := range tapeE {
		q1 = append(q1, te.Term)
		if te.Cap != nil {
			q1 = append(q1, te.Cap)
		}
	}
	nTape := len(q1)
	for _, oe := range obsE {
		switch oe.Kind {
		case "int", "bool", "assert":
			q1 = append(q1, oe.Term)
		case "bytes":
			q1 = append(q1, oe.Bytes.len)
		}
	}
	v1, err := e.solver.GetValues(q1)
	if err != nil {
		return nil, nil, err
	}
	var q2 []*Term
	tape := make([]TapeValue, len(tapeE))
	vi := 0
	type span struct{ from, n int }
	tapeSpans := make([]span, len(tapeE))
	for i, te := range tapeE {
		v := v1[vi]
		vi++
		tape[i].Kind = te.Kind
		tape[i].U = v
		if te.Kind == "bytes" || te.Kind == "str" {
			n := int(v)
			if n > te.Max {
				return nil, nil, fmt.Errorf("model length %d exceeds bound %d", n, te.Max)
			}
			total := n
			if te.Cap != nil {
				c := int(v1[vi])
				vi++
				tape[i].Cap = c
				if c > total {
					total = c
				}
			}
			tapeSpans[i] = span{len(q2), total}
			for j := 0; j < total; j++ {
				q2 = append(q2, e.tm.Select(te.Arr, e.c64(uint64(j))))
			}
		}
	}
	_ = nTape
	obs := make([]ObsValue, 0, len(obsE))
	obsSpans := make([]span, len(obsE))
	for i, oe := range obsE {
		switch oe.Kind {
		case "reach":
			obs = append(obs, ObsValue{oe.Tag, "reach"})
		case "int":
			obs = append(obs, ObsValue{oe.Tag, fmt.Sprintf("%d", int64(v1[vi]))})
			vi++
		case "bool", "assert":
			obs = append(obs, ObsValue{oe.Tag, fmt.Sprintf("%v", v1[vi] == 1)})
			vi++
		case "bytes":
			n := int(v1[vi])
			vi++
			if n > 1<<16 {
				return nil, nil, fmt.Errorf("observed length too large")
			}
			obsSpans[i] = span{len(q2), n}
			for j := 0; j < n; j++ {
				q2 = append(q2, e.arrRead(oe.Bytes.arr, e.tm.Add(oe.Bytes.off, e.c64(uint64(j)))))
			}
			obs = append(obs, ObsValue{oe.Tag, ""})
		}
	}
	v2, err := e.solver.GetValues(q2)
	if err != nil {
		return nil, nil, err
	}
	for i, te := range tapeE {
		if te.Kind == "bytes" || te.Kind == "str" {
			sp := tapeSpans[i]
			b := make([]byte, sp.n)
			for j := range b {
				b[j] = byte(v2[sp.from+j])
			}
			tape[i].Bytes = fmt.Sprintf("%x", b)
		}
	}
	oi := 0
	for i, oe := range obsE {
		if oe.Kind == "bytes" {
			sp := obsSpans[i]
			b := make([]byte, sp.n)
			for j := range b {
				b[j] = byte(v2[sp.from+j])
			}
			obs[oi].Val = fmt.Sprintf("%x", b)
		}
		oi++
	}
	return tape, obs, nil
}

func sortedKeys(m map[string]int) []string {
	var ks []string
	for k := range m {
		ks = append(ks, k)
	}
	sort.Strings(ks)
	return ks
}
