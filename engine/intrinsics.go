package main

// Environment model: intrinsics for functions that bottom out in assembly, reflection, the
// runtime or third-party code.  Every entry is part of the trusted base and is listed in the
// evidence when hit.

import (
	"crypto/md5"
	"fmt"
	"go/types"
	"os"
	"strings"

	"golang.org/x/tools/go/ssa"
)

type intrinsicFn func(e *Engine, st *State, fn *ssa.Function, args []Value, site ssa.Instruction) []Outcome

var intrinsics map[string]intrinsicFn

func init() {
	base := map[string]intrinsicFn{
		"fmt.Errorf":    inFmtErrorf,
		"fmt.Sprintf":   inFmtSprintf,
		"fmt.Sprint":    inFmtSprint,
		"fmt.Sprintln":  inFmtSprint,
		"fmt.Fprintf":   inFmtFprintf,
		"fmt.Println":   inNoop,
		"fmt.Printf":    inNoop,
		"errors.As":     inErrorsAs,
		"errors.Is":     inErrorsIs,
		"errors.New":    inErrorsNew,
		"errors.Unwrap": inErrorsUnwrap,

		"internal/bytealg.IndexByteString": inIndexByteString,
		"internal/bytealg.IndexByte":       inIndexByte,
		"internal/bytealg.MakeNoZero":      inMakeNoZero,
		"internal/bytealg.Equal":           inBytesEqual,
		"internal/bytealg.CountString":     inUnsupported,
		"internal/bytealg.IndexString":     inIndexString,
		"internal/bytealg.Index":           inUnsupported,
		"strings.IndexByte":                inIndexByteString,
		"bytes.IndexByte":                  inIndexByte,
		"bytes.Equal":                      inBytesEqual,
		"strings.Index":                    inIndexString,
		"strings.Contains":                 inStringsContains,
		"strings.EqualFold":                inEqualFold,

		"crypto/md5.New": inMD5New,
		"crypto/md5.Sum": inMD5Sum,

		"math/rand.Seed":               inNoop,
		"math/rand.Uint32":             inFreshScalar,
		"time.Now":                     inTimeNow,
		"time.Since":                   inTimeSince,
		"time.Until":                   inTimeUntil,
		"(time.Time).After":            inTimeAfter,
		"(time.Time).Before":           inTimeBefore,
		"(time.Time).Sub":              inTimeSub,
		"(time.Time).UnixNano":         inFreshScalar,
		"(time.Time).Add":              inTimeAdd,
		"(time.Time).IsZero":           inTimeIsZero,
		"(time.Duration).Milliseconds": inFreshScalar,
		"(time.Duration).Seconds":      inOpaqueFloat,

		"context.WithValue":  inCtxWithValue,
		"context.Background": inCtxBackground,
		"context.TODO":       inCtxBackground,

		"(*sync.Mutex).Lock": inNoop, "(*sync.Mutex).Unlock": inNoop,
		"(*sync.RWMutex).Lock": inNoop, "(*sync.RWMutex).Unlock": inNoop,
		"(*sync.RWMutex).RLock": inNoop, "(*sync.RWMutex).RUnlock": inNoop,
		"(*sync.WaitGroup).Add":  inWGAdd,
		"(*sync.WaitGroup).Done": inWGDone,
		"(*sync.WaitGroup).Wait": inWGWait,
		"(*sync.Once).Do":        inOnceDo,

		"net.SplitHostPort":            inSplitHostPort,
		"strconv.Itoa":                 inItoa,
		"strings.Join":                 inStringsJoin,
		"(*strings.Builder).String":    inBuilderString,
		"(*strings.Builder).copyCheck": inNoop,
		"strconv.FormatBool":           inFormatBool,
	}
	if intrinsics == nil {
		intrinsics = map[string]intrinsicFn{}
	}
	for k, v := range base {
		intrinsics[k] = v
	}
}

func (e *Engine) findIntrinsic(fn *ssa.Function) intrinsicFn {
	name := fn.String()
	if h, ok := intrinsics[name]; ok {
		return h
	}
	if fn.Pkg != nil {
		path := fn.Pkg.Pkg.Path()
		if strings.HasPrefix(fn.Name(), "vp") && strings.HasPrefix(path, repoModule) && fn.Signature.Recv() == nil {
			if h, ok := vpAPI[fn.Name()]; ok {
				return h
			}
		}
		if strings.HasPrefix(path, "github.com/prometheus/") {
			return inPrometheus
		}
		if fn.Name() == "init" && !strings.HasPrefix(path, repoModule) {
			return inNoop
		}
	} else if fn.Signature.Recv() != nil {
		// synthetic wrapper around a method of an external package
		if r := fn.Signature.Recv().Type(); r != nil {
			if strings.Contains(types.TypeString(r, nil), "github.com/prometheus/") {
				return inPrometheus
			}
		}
	}
	return nil
}

func (e *Engine) namedIntrinsic(st *State, name string, args []Value, bind []Value, site ssa.Instruction) []Outcome {
	switch name {
	case "hash.Write":
		return one(st, nil)
	}
	panic(unsupported("named intrinsic " + name))
}

func resultZero(e *Engine, fn *ssa.Function) Value {
	res := fn.Signature.Results()
	switch res.Len() {
	case 0:
		return nil
	case 1:
		return e.zero(res.At(0).Type())
	}
	return e.zero(res)
}

func inNoop(e *Engine, st *State, fn *ssa.Function, args []Value, site ssa.Instruction) []Outcome {
	return one(st, resultZero(e, fn))
}

func inUnsupported(e *Engine, st *State, fn *ssa.Function, args []Value, site ssa.Instruction) []Outcome {
	panic(unsupported("intrinsic not modelled: " + fn.String()))
}

func inFreshScalar(e *Engine, st *State, fn *ssa.Function, args []Value, site ssa.Instruction) []Outcome {
	w, _, ok := intWidth(fn.Signature.Results().At(0).Type())
	if !ok {
		panic(unsupported("fresh scalar for " + fn.String()))
	}
	return one(st, e.tm.FreshVar("env", w))
}

func inOpaqueFloat(e *Engine, st *State, fn *ssa.Function, args []Value, site ssa.Instruction) []Outcome {
	return one(st, &OpaqueV{kind: "float"})
}

// ---------- errors / fmt ----------

type errData struct {
	format  string
	wrapped []Value // error interface values wrapped with %w
	text    *StrV
}

func (e *Engine) errorType() types.Type {
	t := e.ld.lookupType("errors", "errorString")
	if t == nil {
		panic(unsupported("errors.errorString type not found"))
	}
	return types.NewPointer(t)
}

func (e *Engine) newOpaqueError(format string, wrapped []Value, deps []*Term, text *StrV) *IfaceV {
	e.nextOpq++
	return &IfaceV{typ: e.errorType(), val: &OpaqueV{kind: "error", id: e.nextOpq, data: &errData{format: format, wrapped: wrapped, text: text}, deps: deps, text: text}}
}

// variadic unpacks a []any argument into its interface values.
func (e *Engine) variadic(st *State, v Value) []Value {
	s, ok := v.(*SliceV)
	if !ok || s.obj == nil {
		return nil
	}
	cv, _ := st.mem.get(s.obj)
	cells := cv.(*CellsV).c
	off, _ := s.off.ConstVal()
	n, _ := s.len.ConstVal()
	return cells[off : off+n]
}

func (e *Engine) collectDeps(v Value, out *[]*Term, st *State, depth int) {
	if depth > 6 {
		return
	}
	switch x := v.(type) {
	case *Term:
		if !x.IsConst() {
			*out = append(*out, x)
		}
	case *StrV:
		if _, ok := concreteString(x); !ok {
			*out = append(*out, x.len)
			if l, ok := x.len.ConstVal(); ok {
				for i := uint64(0); i < l && i < 4096; i++ {
					e.collectDeps(e.arrRead(x.arr, e.tm.Add(x.off, e.c64(i))), out, st, depth+1)
				}
			} else if x.max >= 0 {
				for i := 0; i < x.max && i < 4096; i++ {
					e.collectDeps(e.arrRead(x.arr, e.tm.Add(x.off, e.c64(uint64(i)))), out, st, depth+1)
				}
			}
		}
	case *IfaceV:
		if x.typ != nil {
			e.collectDeps(x.val, out, st, depth+1)
		}
	case *StructV:
		for _, f := range x.f {
			e.collectDeps(f, out, st, depth+1)
		}
	case *OpaqueV:
		*out = append(*out, x.deps...)
	case *ChoiceV:
		for _, a := range x.alts {
			*out = append(*out, a.cond)
			e.collectDeps(a.v, out, st, depth+1)
		}
	case *PtrV:
		if !x.IsNil() && st != nil {
			if c, ok := st.mem.get(x.obj); ok {
				if len(x.path) == 0 {
					e.collectDeps(c, out, st, depth+1)
				}
			}
		}
	case *SliceV:
		if x.obj != nil && x.bytes && st != nil {
			c, _ := st.mem.get(x.obj)
			e.collectDeps(&StrV{arr: c.(ArrExpr), off: x.off, len: x.len, max: x.max}, out, st, depth+1)
		}
	}
}

// expandChoices resolves guarded unions among variadic arguments (an error merged from several
// callee outcomes, for instance): one outcome per feasible combination of alternatives.
func (e *Engine) expandChoices(st *State, vs []Value, k func(st *State, vs []Value) []Outcome) []Outcome {
	for i, v := range vs {
		ch, ok := v.(*ChoiceV)
		if !ok {
			continue
		}
		var outs []Outcome
		for _, al := range ch.alts {
			if !e.feasible(st, al.cond) {
				continue
			}
			s2 := st.clone()
			s2.assume(al.cond)
			nv := append([]Value(nil), vs...)
			nv[i] = al.v
			outs = append(outs, e.expandChoices(s2, nv, k)...)
		}
		return outs
	}
	return k(st, vs)
}

func inFmtErrorf(e *Engine, st *State, fn *ssa.Function, args []Value, site ssa.Instruction) []Outcome {
	return e.expandChoices(st, e.variadic(st, args[1]), func(st *State, vs []Value) []Outcome {
		return fmtErrorf(e, st, args, vs)
	})
}

func fmtErrorf(e *Engine, st *State, args []Value, vs []Value) []Outcome {
	format := "?"
	if s, ok := args[0].(*StrV); ok {
		if cs, ok := concreteString(s); ok {
			format = cs
		}
	}
	var wrapped []Value
	var deps []*Term
	if strings.Contains(format, "%w") {
		for _, a := range vs {
			if iv, ok := a.(*IfaceV); ok && iv.typ != nil && e.isErrorType(iv.typ) {
				wrapped = append(wrapped, iv)
			} else if ch, ok := a.(*ChoiceV); ok {
				wrapped = append(wrapped, ch)
			}
		}
	}
	for _, a := range vs {
		e.collectDeps(a, &deps, st, 0)
	}
	text := e.formatIfPossible(st, format, vs)
	return one(st, e.newOpaqueError(format, wrapped, deps, text))
}

func (e *Engine) isErrorType(t types.Type) bool {
	errT := types.Universe.Lookup("error").Type().Underlying().(*types.Interface)
	return types.Implements(t, errT)
}

// formatIfPossible renders Sprintf exactly when the format is concrete and only uses %s %v %d %q-free
// verbs over strings / integers; otherwise nil.
func (e *Engine) formatIfPossible(st *State, format string, vs []Value) *StrV {
	out := e.mkStr("")
	ai := 0
	i := 0
	lit := func(s string) {
		if s != "" {
			out = e.strConcat(out, e.mkStr(s))
		}
	}
	for i < len(format) {
		j := strings.IndexByte(format[i:], '%')
		if j < 0 {
			lit(format[i:])
			break
		}
		lit(format[i : i+j])
		i += j
		if i+1 >= len(format) {
			return nil
		}
		verb := format[i+1]
		i += 2
		if verb == '%' {
			lit("%")
			continue
		}
		if verb != 's' && verb != 'v' && verb != 'd' {
			return nil
		}
		if ai >= len(vs) {
			return nil
		}
		a := vs[ai]
		ai++
		s := e.renderValue(st, a, verb)
		if s == nil {
			return nil
		}
		out = e.strConcat(out, s)
	}
	if ai != len(vs) {
		return nil
	}
	return out
}

func (e *Engine) renderValue(st *State, a Value, verb byte) *StrV {
	iv, ok := a.(*IfaceV)
	if !ok || iv.typ == nil {
		return nil
	}
	switch v := iv.val.(type) {
	case *StrV:
		if verb == 'd' {
			return nil
		}
		// named string types with a String method would be rendered through it; the repo's
		// String methods on string types return the string itself (or a trimmed copy for Arg)
		if named, ok := iv.typ.(*types.Named); ok && named.Obj().Name() == "Arg" {
			return nil
		}
		return v
	case *Term:
		if c, ok := v.ConstVal(); ok {
			if w, signed, isInt := intWidth(iv.typ); isInt {
				if e.hasStringMethod(iv.typ) && verb != 'd' {
					return nil
				}
				if signed {
					return e.mkStr(fmt.Sprint(sext64(c, w)))
				}
				return e.mkStr(fmt.Sprint(c))
			}
			if isBoolType(iv.typ) && verb != 'd' {
				return e.mkStr(fmt.Sprint(c == 1))
			}
		}
	case *OpaqueV:
		if v.text != nil && verb != 'd' {
			return v.text
		}
	case *SliceV:
		// %s of a []byte renders the bytes
		if v.bytes && verb == 's' {
			if named, ok := iv.typ.(*types.Named); ok && e.hasStringMethod(named) {
				return nil
			}
			return e.sliceAsStr(st, v)
		}
	}
	return nil
}

func (e *Engine) hasStringMethod(t types.Type) bool {
	ms := e.prog.MethodSets.MethodSet(t)
	for i := 0; i < ms.Len(); i++ {
		if ms.At(i).Obj().Name() == "String" || ms.At(i).Obj().Name() == "Error" {
			return true
		}
	}
	return false
}

func (e *Engine) opaqueString(st *State, kind string, vs []Value) *StrV {
	var deps []*Term
	for _, a := range vs {
		e.collectDeps(a, &deps, st, 0)
	}
	if len(deps) == 0 {
		// data-independent but unknown text: a fixed symbolic string
	}
	name := e.tm.FreshName("fmt")
	l := e.tm.Var(name+"_len", 64)
	st.assume(e.tm.Ule(l, e.c64(uint64(e.bound("fmt_len", 16)))))
	s := &StrV{arr: &ArrSym{name}, off: e.c64(0), len: l, max: e.bound("fmt_len", 16)}
	e.fmtDeps[name] = deps
	return s
}

func inFmtSprintf(e *Engine, st *State, fn *ssa.Function, args []Value, site ssa.Instruction) []Outcome {
	return e.expandChoices(st, e.variadic(st, args[1]), func(st *State, vs []Value) []Outcome {
		return fmtSprintf(e, st, args, vs, site)
	})
}

func fmtSprintf(e *Engine, st *State, args []Value, vs []Value, site ssa.Instruction) []Outcome {
	if s, ok := args[0].(*StrV); ok {
		if cs, ok := concreteString(s); ok {
			if r := e.formatIfPossible(st, cs, vs); r != nil {
				return one(st, r)
			}
		}
	}
	if os.Getenv("VP_LEAKDBG") != "" {
		d := ""
		for _, v := range vs {
			d += " " + describe(v)
		}
		fmt.Printf("sprintf opaque: %s <-%s @ %s\n", describe(args[0]), d, e.where(site))
	}
	return one(st, e.opaqueString(st, "sprintf", append([]Value{args[0]}, vs...)))
}

func inFmtSprint(e *Engine, st *State, fn *ssa.Function, args []Value, site ssa.Instruction) []Outcome {
	return e.expandChoices(st, e.variadic(st, args[0]), func(st *State, vs []Value) []Outcome {
		return fmtSprint(e, st, vs)
	})
}

func fmtSprint(e *Engine, st *State, vs []Value) []Outcome {
	if len(vs) == 1 {
		if r := e.renderValue(st, vs[0], 'v'); r != nil {
			return one(st, r)
		}
	}
	return one(st, e.opaqueString(st, "sprint", vs))
}

func inFmtFprintf(e *Engine, st *State, fn *ssa.Function, args []Value, site ssa.Instruction) []Outcome {
	// Fprintf(w, format, args...): supported when w is a *strings.Builder (appends the rendered text)
	vs := e.variadic(st, args[2])
	var text *StrV
	if s, ok := args[1].(*StrV); ok {
		if cs, ok := concreteString(s); ok {
			text = e.formatIfPossible(st, cs, vs)
		}
	}
	if text == nil {
		text = e.opaqueString(st, "fprintf", append([]Value{args[1]}, vs...))
	}
	if iv, ok := args[0].(*IfaceV); ok && iv.typ != nil && strings.HasSuffix(typeName(iv.typ), "strings.Builder") {
		// write into Builder.buf (field 1)
		p := iv.val.(*PtrV)
		bufPtr := &PtrV{obj: p.obj, path: append(append([]PathElem(nil), p.path...), PathElem{field: 1})}
		cur := e.loadPtr(st, bufPtr)
		nv := e.appendOp(st, cur, text, site)
		e.storePtr(st, bufPtr, nv)
		return one(st, &TupleV{[]Value{text.len, &IfaceV{}}})
	}
	panic(unsupported("Fprintf to " + describe(args[0])))
}

func inErrorsNew(e *Engine, st *State, fn *ssa.Function, args []Value, site ssa.Instruction) []Outcome {
	s, _ := args[0].(*StrV)
	f := "?"
	if s != nil {
		if cs, ok := concreteString(s); ok {
			f = cs
		}
	}
	return one(st, e.newOpaqueError(f, nil, nil, s))
}

func (e *Engine) unwrapAlts(v Value, cond *Term, visit func(cond *Term, iv *IfaceV)) {
	switch x := v.(type) {
	case *ChoiceV:
		for _, a := range x.alts {
			e.unwrapAlts(a.v, e.tm.And(cond, a.cond), visit)
		}
	case *IfaceV:
		visit(cond, x)
	}
}

// errChain walks err and everything it wraps.
func (e *Engine) errChain(v Value, cond *Term, visit func(cond *Term, iv *IfaceV)) {
	e.unwrapAlts(v, cond, func(c *Term, iv *IfaceV) {
		if iv.typ == nil {
			return
		}
		visit(c, iv)
		if op, ok := iv.val.(*OpaqueV); ok && op.kind == "error" {
			if ed, ok := op.data.(*errData); ok {
				for _, w := range ed.wrapped {
					e.errChain(w, c, visit)
				}
			}
		}
	})
}

func inErrorsAs(e *Engine, st *State, fn *ssa.Function, args []Value, site ssa.Instruction) []Outcome {
	tm := e.tm
	tgt, ok := args[1].(*IfaceV)
	if !ok || tgt.typ == nil {
		panic(unsupported("errors.As target"))
	}
	tp := tgt.val.(*PtrV)
	want := tgt.typ.(*types.Pointer).Elem()
	found := tm.False
	cur := e.loadPtr(st, tp)
	e.errChain(args[0], tm.True, func(c *Term, iv *IfaceV) {
		match := false
		var val Value
		if it, isI := want.Underlying().(*types.Interface); isI {
			match = types.Implements(iv.typ, it)
			val = iv
		} else {
			match = types.Identical(iv.typ, want)
			val = iv.val
		}
		if match {
			hit := tm.And(c, tm.Not(found))
			cur = e.mergeValues(hit, val, cur)
			found = tm.Or(found, c)
		}
	})
	e.storePtr(st, tp, cur)
	return one(st, found)
}

func inErrorsIs(e *Engine, st *State, fn *ssa.Function, args []Value, site ssa.Instruction) []Outcome {
	tm := e.tm
	found := tm.False
	e.errChain(args[0], tm.True, func(c *Term, iv *IfaceV) {
		found = tm.Or(found, tm.And(c, e.valuesEqual(iv, args[1])))
	})
	return one(st, found)
}

func inErrorsUnwrap(e *Engine, st *State, fn *ssa.Function, args []Value, site ssa.Instruction) []Outcome {
	iv, ok := args[0].(*IfaceV)
	if ok && iv.typ != nil {
		if op, ok := iv.val.(*OpaqueV); ok {
			if ed, ok := op.data.(*errData); ok && len(ed.wrapped) == 1 {
				return one(st, ed.wrapped[0])
			}
		}
	}
	return one(st, &IfaceV{})
}

// opaqueMethod dispatches a method call on an interface holding an OpaqueV.
func (e *Engine) opaqueMethod(st *State, iv *IfaceV, op *OpaqueV, method string, args []Value, site ssa.Instruction) []Outcome {
	switch op.kind {
	case "error":
		if method == "Error" {
			if op.text != nil {
				return one(st, op.text)
			}
			ed := op.data.(*errData)
			s := e.opaqueString(st, "error", nil)
			e.fmtDeps[s.arr.(*ArrSym).name] = op.deps
			_ = ed
			return one(st, s)
		}
		if method == "Unwrap" {
			ed := op.data.(*errData)
			if len(ed.wrapped) == 1 {
				return one(st, ed.wrapped[0])
			}
			return one(st, &IfaceV{})
		}
	case "metric":
		return e.metricMethod(st, op, method, args)
	case "hash":
		return e.hashMethod(st, iv, op, method, args, site)
	case "ctx":
		return e.ctxMethod(st, iv, op, method, args)
	case "time":
	}
	panic(unsupported("method " + method + " on opaque " + op.kind))
}

// ---------- bytealg ----------

func (e *Engine) strBoundOrFail(s *StrV) int {
	if c, ok := s.len.ConstVal(); ok {
		return int(c)
	}
	if s.max >= 0 {
		return s.max
	}
	return e.cfg.DefaultStrBound
}

func (e *Engine) indexByteIn(arr ArrExpr, off, ln *Term, bound int, c *Term) *Term {
	tm := e.tm
	res := tm.BV(^uint64(0), 64) // -1
	for i := bound - 1; i >= 0; i-- {
		ci := e.c64(uint64(i))
		hit := tm.And(tm.Ult(ci, ln), tm.Eq(e.arrRead(arr, tm.Add(off, ci)), c))
		res = tm.Ite(hit, ci, res)
	}
	return res
}

func inIndexByteString(e *Engine, st *State, fn *ssa.Function, args []Value, site ssa.Instruction) []Outcome {
	s := args[0].(*StrV)
	return one(st, e.indexByteIn(s.arr, s.off, s.len, e.strBoundOrFail(s), args[1].(*Term)))
}

func (e *Engine) sliceAsStr(st *State, s *SliceV) *StrV {
	if s.obj == nil {
		return e.mkStr("")
	}
	c, _ := st.mem.get(s.obj)
	return &StrV{arr: c.(ArrExpr), off: s.off, len: s.len, max: s.max}
}

func inIndexByte(e *Engine, st *State, fn *ssa.Function, args []Value, site ssa.Instruction) []Outcome {
	s := e.sliceAsStr(st, args[0].(*SliceV))
	return one(st, e.indexByteIn(s.arr, s.off, s.len, e.strBoundOrFail(s), args[1].(*Term)))
}

func inMakeNoZero(e *Engine, st *State, fn *ssa.Function, args []Value, site ssa.Instruction) []Outcome {
	o := e.newObject("makenozero", types.Typ[types.Uint8])
	st.mem.set(o, ArrExpr(emptyArr))
	n := args[0].(*Term)
	mx := -1
	if c, ok := n.ConstVal(); ok {
		mx = int(c)
	}
	return one(st, &SliceV{obj: o, off: e.c64(0), len: n, cap: n, bytes: true, max: mx})
}

func inBytesEqual(e *Engine, st *State, fn *ssa.Function, args []Value, site ssa.Instruction) []Outcome {
	a := e.sliceAsStr(st, args[0].(*SliceV))
	b := e.sliceAsStr(st, args[1].(*SliceV))
	return one(st, e.strEq(a, b))
}

// strIndex: first index of concrete-length needle in s (bounded), -1 if absent.
func (e *Engine) strIndex(s, sub *StrV) *Term {
	tm := e.tm
	m, ok := sub.len.ConstVal()
	if !ok {
		panic(unsupported("strings.Index with symbolic needle length"))
	}
	bound := e.strBoundOrFail(s)
	res := tm.BV(^uint64(0), 64)
	for i := bound - int(m); i >= 0; i-- {
		ci := e.c64(uint64(i))
		conj := []*Term{tm.Ule(e.c64(uint64(i)+m), s.len)}
		for j := uint64(0); j < m; j++ {
			conj = append(conj, tm.Eq(e.arrRead(s.arr, tm.Add(s.off, e.c64(uint64(i)+j))), e.arrRead(sub.arr, tm.Add(sub.off, e.c64(j)))))
		}
		res = tm.Ite(tm.And(conj...), ci, res)
	}
	return res
}

func inIndexString(e *Engine, st *State, fn *ssa.Function, args []Value, site ssa.Instruction) []Outcome {
	return one(st, e.strIndex(args[0].(*StrV), args[1].(*StrV)))
}

func inStringsContains(e *Engine, st *State, fn *ssa.Function, args []Value, site ssa.Instruction) []Outcome {
	idx := e.strIndex(args[0].(*StrV), args[1].(*StrV))
	return one(st, e.tm.Ne(idx, e.tm.BV(^uint64(0), 64)))
}

func inEqualFold(e *Engine, st *State, fn *ssa.Function, args []Value, site ssa.Instruction) []Outcome {
	tm := e.tm
	a, b := args[0].(*StrV), args[1].(*StrV)
	lower := func(s *StrV) *StrV {
		n := e.strBoundOrFail(s)
		v := make([]*Term, n)
		for i := 0; i < n; i++ {
			c := e.arrRead(s.arr, tm.Add(s.off, e.c64(uint64(i))))
			up := tm.And(tm.Ule(tm.BV('A', 8), c), tm.Ule(c, tm.BV('Z', 8)))
			v[i] = tm.Ite(up, tm.Add(c, tm.BV(32, 8)), c)
		}
		return &StrV{arr: &ArrVec{v}, off: e.c64(0), len: s.len, max: s.max}
	}
	return one(st, e.strEq(lower(a), lower(b)))
}

// ---------- md5 ----------

type hashState struct {
	bytes []*Term // accumulated input (concrete length)
}

func (e *Engine) hashIface(hs *hashState) *IfaceV {
	t := e.ld.lookupType("hash", "Hash")
	return &IfaceV{typ: t, val: &OpaqueV{kind: "hash", data: hs}}
}

func inMD5New(e *Engine, st *State, fn *ssa.Function, args []Value, site ssa.Instruction) []Outcome {
	// the hash object lives in memory so that Write/Reset mutate it
	o := e.newObject("md5", nil)
	st.mem.set(o, &OpaqueV{kind: "hashstate", data: &hashState{}})
	t := e.ld.lookupType("hash", "Hash")
	return one(st, &IfaceV{typ: t, val: &OpaqueV{kind: "hash", data: o}})
}

func (e *Engine) md5Of(bs []*Term) []*Term {
	tm := e.tm
	allConst := true
	raw := make([]byte, len(bs))
	for i, b := range bs {
		c, ok := b.ConstVal()
		if !ok {
			allConst = false
			break
		}
		raw[i] = byte(c)
	}
	out := make([]*Term, 16)
	if allConst {
		d := md5.Sum(raw)
		for i := range out {
			out[i] = tm.BV(uint64(d[i]), 8)
		}
		return out
	}
	// one uninterpreted function per input length: BV(8N) -> BV128, result bytes by extraction
	if len(bs) == 0 {
		d := md5.Sum(nil)
		for i := range out {
			out[i] = tm.BV(uint64(d[i]), 8)
		}
		return out
	}
	arg := bs[0]
	for _, b := range bs[1:] {
		arg = tm.Concat(arg, b)
	}
	digest := tm.UF(fmt.Sprintf("md5_%d", len(bs)), 128, arg)
	for i := range out {
		out[i] = tm.Extract(digest, 127-8*i, 120-8*i)
	}
	return out
}

func (e *Engine) bytesOfSlice(st *State, v Value, what string) []*Term {
	var s *StrV
	switch x := v.(type) {
	case *SliceV:
		s = e.sliceAsStr(st, x)
	case *StrV:
		s = x
	default:
		panic(unsupported(what + ": not bytes"))
	}
	bs, ok := e.strByteTerms(s)
	if !ok {
		panic(needConcreteLen{s.len})
	}
	return bs
}

type needConcreteLen struct{ t *Term }

func (e *Engine) hashMethod(st *State, iv *IfaceV, op *OpaqueV, method string, args []Value, site ssa.Instruction) []Outcome {
	o := op.data.(*Object)
	cv, _ := st.mem.get(o)
	hs := cv.(*OpaqueV).data.(*hashState)
	switch method {
	case "Reset":
		st.mem.set(o, &OpaqueV{kind: "hashstate", data: &hashState{}})
		return one(st, nil)
	case "Write":
		s := args[0].(*SliceV)
		var bs []*Term
		if s.obj != nil {
			str := e.sliceAsStr(st, s)
			if _, ok := str.len.ConstVal(); !ok {
				// concretise the length by enumeration
				return e.forkOnLen(st, str.len, e.bound("hash_len", 64), func(st2 *State, n uint64) []Outcome {
					ns := &SliceV{obj: s.obj, off: s.off, len: e.c64(n), cap: s.cap, bytes: true, max: int(n)}
					return e.hashMethod(st2, iv, op, method, []Value{ns}, site)
				})
			}
			bs, _ = e.strByteTerms(str)
		}
		nb := append(append([]*Term(nil), hs.bytes...), bs...)
		st.mem.set(o, &OpaqueV{kind: "hashstate", data: &hashState{bytes: nb}})
		return one(st, &TupleV{[]Value{e.c64(uint64(len(bs))), &IfaceV{}}})
	case "Sum":
		d := e.md5Of(hs.bytes)
		prefix := args[0].(*SliceV)
		res := e.appendOp(st, prefix, &StrV{arr: &ArrVec{d}, off: e.c64(0), len: e.c64(16), max: 16}, site)
		return one(st, res)
	case "Size":
		return one(st, e.c64(16))
	case "BlockSize":
		return one(st, e.c64(64))
	}
	panic(unsupported("hash method " + method))
}

// forkOnLen enumerates the feasible values of a length term and runs k for each.
func (e *Engine) forkOnLen(st *State, n *Term, limit int, k func(st *State, n uint64) []Outcome) []Outcome {
	vals := e.enumerate(st, n, limit)
	var outs []Outcome
	for i, v := range vals {
		s := st
		if i < len(vals)-1 {
			s = st.clone()
		}
		s.assume(e.tm.Eq(n, e.tm.BV(v, n.w)))
		if len(vals) > 1 {
			s.splits++
		}
		outs = append(outs, k(s, v)...)
	}
	return outs
}

func inMD5Sum(e *Engine, st *State, fn *ssa.Function, args []Value, site ssa.Instruction) []Outcome {
	s := e.sliceAsStr(st, args[0].(*SliceV))
	if _, ok := s.len.ConstVal(); !ok {
		return e.forkOnLen(st, s.len, e.bound("hash_len", 64), func(st2 *State, n uint64) []Outcome {
			a := args[0].(*SliceV)
			ns := &SliceV{obj: a.obj, off: a.off, len: e.c64(n), cap: a.cap, bytes: true, max: int(n)}
			return inMD5Sum(e, st2, fn, []Value{ns}, site)
		})
	}
	bs, _ := e.strByteTerms(s)
	d := e.md5Of(bs)
	return one(st, &BytesArrV{arr: &ArrVec{d}, n: 16})
}

// ---------- time / context / sync ----------

func inTimeNow(e *Engine, st *State, fn *ssa.Function, args []Value, site ssa.Instruction) []Outcome {
	tm := e.tm
	now := tm.FreshVar("now", 64)
	if prev, ok := st.ghost["vp.clock"]; ok {
		// monotone clock; environment assumption: less than one second passes between two
		// consecutive clock readings on a path
		st.assume(tm.Ule(prev.(*Term), now))
		st.assume(tm.Ule(now, tm.Add(prev.(*Term), e.c64(1000000000))))
	}
	st.assume(tm.Ult(now, e.c64(1<<62)))
	st.assume(tm.Ult(e.c64(0), now))
	st.ghost["vp.clock"] = now
	return one(st, &OpaqueV{kind: "time", data: now})
}

func inTimeAdd(e *Engine, st *State, fn *ssa.Function, args []Value, site ssa.Instruction) []Outcome {
	t := args[0].(*OpaqueV)
	base, ok := t.data.(*Term)
	if !ok {
		return one(st, &OpaqueV{kind: "time", data: e.tm.FreshVar("time", 64)})
	}
	return one(st, &OpaqueV{kind: "time", data: e.tm.Add(base, args[1].(*Term))})
}

func inTimeIsZero(e *Engine, st *State, fn *ssa.Function, args []Value, site ssa.Instruction) []Outcome {
	t := args[0].(*OpaqueV)
	if base, ok := t.data.(*Term); ok {
		return one(st, e.tm.Eq(base, e.c64(0)))
	}
	return one(st, e.tm.True)
}

func inTimeUntil(e *Engine, st *State, fn *ssa.Function, args []Value, site ssa.Instruction) []Outcome {
	t, ok := args[0].(*OpaqueV).data.(*Term)
	if !ok {
		return one(st, e.tm.FreshVar("until", 64))
	}
	now := inTimeNow(e, st, fn, nil, site)[0].ret.(*OpaqueV).data.(*Term)
	return one(st, e.tm.Sub(t, now))
}

func timeTerms(args []Value) (*Term, *Term, bool) {
	a, ok1 := args[0].(*OpaqueV).data.(*Term)
	b, ok2 := args[1].(*OpaqueV).data.(*Term)
	return a, b, ok1 && ok2
}

func inTimeAfter(e *Engine, st *State, fn *ssa.Function, args []Value, site ssa.Instruction) []Outcome {
	if a, b, ok := timeTerms(args); ok {
		return one(st, e.tm.Ult(b, a))
	}
	return one(st, e.tm.FreshVar("after", 0))
}

func inTimeBefore(e *Engine, st *State, fn *ssa.Function, args []Value, site ssa.Instruction) []Outcome {
	if a, b, ok := timeTerms(args); ok {
		return one(st, e.tm.Ult(a, b))
	}
	return one(st, e.tm.FreshVar("before", 0))
}

func inTimeSub(e *Engine, st *State, fn *ssa.Function, args []Value, site ssa.Instruction) []Outcome {
	if a, b, ok := timeTerms(args); ok {
		return one(st, e.tm.Sub(a, b))
	}
	return one(st, e.tm.FreshVar("sub", 64))
}

func inTimeSince(e *Engine, st *State, fn *ssa.Function, args []Value, site ssa.Instruction) []Outcome {
	return one(st, e.tm.FreshVar("since", 64))
}

type ctxData struct {
	parent Value
	key    Value
	val    Value
}

func (e *Engine) ctxType() types.Type { return e.ld.lookupType("context", "Context") }

func inCtxBackground(e *Engine, st *State, fn *ssa.Function, args []Value, site ssa.Instruction) []Outcome {
	return one(st, &IfaceV{typ: e.ctxType(), val: &OpaqueV{kind: "ctx", data: &ctxData{}}})
}

func inCtxWithValue(e *Engine, st *State, fn *ssa.Function, args []Value, site ssa.Instruction) []Outcome {
	e.nextOpq++
	return one(st, &IfaceV{typ: e.ctxType(), val: &OpaqueV{kind: "ctx", id: e.nextOpq, data: &ctxData{parent: args[0], key: args[1], val: args[2]}}})
}

func (e *Engine) ctxMethod(st *State, iv *IfaceV, op *OpaqueV, method string, args []Value) []Outcome {
	cd := op.data.(*ctxData)
	switch method {
	case "Value":
		if cd.key != nil {
			eq := e.valuesEqual(cd.key, args[0])
			if eq.IsTrue() {
				return one(st, cd.val)
			}
			if !eq.IsFalse() {
				panic(unsupported("context key comparison is symbolic"))
			}
		}
		if cd.parent == nil {
			return one(st, &IfaceV{})
		}
		return e.invokeMethod(st, cd.parent, "Value", args, nil)
	case "Done", "Err", "Deadline":
		if cd.parent == nil {
			switch method {
			case "Done":
				return one(st, &ChanV{})
			case "Err":
				return one(st, &IfaceV{})
			}
			return one(st, &TupleV{[]Value{&OpaqueV{kind: "time"}, e.tm.False}})
		}
		return e.invokeMethod(st, cd.parent, method, args, nil)
	}
	panic(unsupported("context method " + method))
}

// invokeMethod calls a method by name on an interface value.
func (e *Engine) invokeMethod(st *State, recv Value, name string, args []Value, site ssa.Instruction) []Outcome {
	iv, ok := recv.(*IfaceV)
	if !ok {
		panic(unsupported(fmt.Sprintf("invokeMethod on %T", recv)))
	}
	if iv.typ == nil {
		e.panicObligation(st, e.tm.False, "nil-interface-invoke:"+name, site)
		panic(pathEnd{"nil invoke"})
	}
	if op, ok := iv.val.(*OpaqueV); ok {
		return e.opaqueMethod(st, iv, op, name, args, site)
	}
	ms := e.prog.MethodSets.MethodSet(iv.typ)
	for i := 0; i < ms.Len(); i++ {
		if ms.At(i).Obj().Name() == name {
			fn := e.prog.MethodValue(ms.At(i))
			return e.callFn(st, fn, append([]Value{iv.val}, args...), nil, site)
		}
	}
	panic(unsupported("no method " + name + " on " + typeName(iv.typ)))
}

func wgKey(v Value) string {
	if p, ok := v.(*PtrV); ok && p.obj != nil {
		return fmt.Sprintf("vp.wg.%d", p.obj.id)
	}
	return "vp.wg"
}

func inWGAdd(e *Engine, st *State, fn *ssa.Function, args []Value, site ssa.Instruction) []Outcome {
	k := wgKey(args[0])
	cur, ok := st.ghost[k]
	if !ok {
		cur = e.c64(0)
	}
	st.ghost[k] = e.tm.Add(cur.(*Term), args[1].(*Term))
	return one(st, nil)
}

func inWGDone(e *Engine, st *State, fn *ssa.Function, args []Value, site ssa.Instruction) []Outcome {
	k := wgKey(args[0])
	cur, ok := st.ghost[k]
	if !ok {
		cur = e.c64(0)
	}
	nv := e.tm.Sub(cur.(*Term), e.c64(1))
	e.panicObligation(st, e.tm.Sle(e.c64(0), nv), "negative-WaitGroup-counter", site)
	st.ghost[k] = nv
	return one(st, nil)
}

func inWGWait(e *Engine, st *State, fn *ssa.Function, args []Value, site ssa.Instruction) []Outcome {
	states := e.runPending(st, site)
	var outs []Outcome
	for _, s := range states {
		k := wgKey(args[0])
		cur, ok := s.ghost[k]
		if ok {
			z := e.tm.Eq(cur.(*Term), e.c64(0))
			if !e.mustHold(s, z) {
				e.note("WaitGroup.Wait with non-zero counter: path blocks forever")
				s.ghost["vp.blocked"] = e.tm.True
				continue
			}
		}
		outs = append(outs, Outcome{st: s})
	}
	return outs
}

func inOnceDo(e *Engine, st *State, fn *ssa.Function, args []Value, site ssa.Instruction) []Outcome {
	p := args[0].(*PtrV)
	k := fmt.Sprintf("vp.once.%d", p.obj.id)
	if _, done := st.ghost[k]; done {
		return one(st, nil)
	}
	st.ghost[k] = e.tm.True
	f := args[1].(*FuncV)
	outs := e.callFn(st, f.fn, nil, f.bind, site)
	for i := range outs {
		outs[i].ret = nil
	}
	return outs
}

func inSplitHostPort(e *Engine, st *State, fn *ssa.Function, args []Value, site ssa.Instruction) []Outcome {
	s := args[0].(*StrV)
	if cs, ok := concreteString(s); ok {
		i := strings.LastIndexByte(cs, ':')
		if i < 0 {
			return one(st, &TupleV{[]Value{e.mkStr(""), e.mkStr(""), e.newOpaqueError("missing port", nil, nil, nil)}})
		}
		host := strings.Trim(cs[:i], "[]")
		return one(st, &TupleV{[]Value{e.mkStr(host), e.mkStr(cs[i+1:]), &IfaceV{}}})
	}
	panic(unsupported("net.SplitHostPort on symbolic string"))
}

func inStringsJoin(e *Engine, st *State, fn *ssa.Function, args []Value, site ssa.Instruction) []Outcome {
	elems := e.variadic(st, args[0])
	sep := args[1].(*StrV)
	out := e.mkStr("")
	for i, el := range elems {
		if i > 0 {
			out = e.strConcat(out, sep)
		}
		out = e.strConcat(out, el.(*StrV))
	}
	return one(st, out)
}

func inBuilderString(e *Engine, st *State, fn *ssa.Function, args []Value, site ssa.Instruction) []Outcome {
	p := args[0].(*PtrV)
	buf := e.loadPtr(st, &PtrV{obj: p.obj, path: append(append([]PathElem(nil), p.path...), PathElem{field: 1})})
	return one(st, e.sliceAsStr(st, buf.(*SliceV)))
}

func inItoa(e *Engine, st *State, fn *ssa.Function, args []Value, site ssa.Instruction) []Outcome {
	if c, ok := args[0].(*Term).SConstVal(); ok {
		return one(st, e.mkStr(fmt.Sprint(c)))
	}
	return one(st, e.opaqueString(st, "itoa", args))
}

func inFormatBool(e *Engine, st *State, fn *ssa.Function, args []Value, site ssa.Instruction) []Outcome {
	t := args[0].(*Term)
	return one(st, e.mergeValues(t, e.mkStr("true"), e.mkStr("false")))
}

// ---------- prometheus ----------

type metricData struct {
	name string
}

func inPrometheus(e *Engine, st *State, fn *ssa.Function, args []Value, site ssa.Instruction) []Outcome {
	name := fn.Name()
	res := fn.Signature.Results()
	switch {
	case strings.HasPrefix(name, "New") && res.Len() == 1:
		// constructors: NewCounter(opts), NewGauge(opts), NewSummary(opts), NewTimer(obs), NewHistogram...
		mname := "metric"
		if len(args) > 0 {
			if sv, ok := args[0].(*StructV); ok {
				var parts []string
				for _, f := range sv.f[:min(4, len(sv.f))] {
					if s, ok := f.(*StrV); ok {
						if cs, ok := concreteString(s); ok && cs != "" {
							parts = append(parts, cs)
						}
					}
				}
				if len(parts) >= 1 {
					// Namespace, Subsystem, Name, Help -> use the first three non-empty without the help text
					if len(parts) > 1 {
						parts = parts[:len(parts)-1]
					}
					mname = strings.Join(parts, "_")
				}
			}
		}
		e.nextOpq++
		rt := res.At(0).Type()
		op := &OpaqueV{kind: "metric", id: e.nextOpq, data: &metricData{name: mname}}
		if _, isI := rt.Underlying().(*types.Interface); isI {
			return one(st, &IfaceV{typ: rt, val: op})
		}
		if _, isP := rt.Underlying().(*types.Pointer); isP {
			// e.g. *prometheus.Timer: an opaque pointer
			o := e.newObject("prom", nil)
			st.mem.set(o, op)
			return one(st, &PtrV{obj: o})
		}
		return one(st, op)
	case name == "ObserveDuration":
		return one(st, e.tm.FreshVar("dur", 64))
	}
	return one(st, resultZero(e, fn))
}

func (e *Engine) metricMethod(st *State, op *OpaqueV, method string, args []Value) []Outcome {
	md := op.data.(*metricData)
	k := "metric." + md.name
	cur, ok := st.ghost[k]
	if !ok {
		cur = e.c64(0)
	}
	switch method {
	case "Inc":
		st.ghost[k] = e.tm.Add(cur.(*Term), e.c64(1))
	case "Dec":
		nv := e.tm.Sub(cur.(*Term), e.c64(1))
		st.ghost[k] = nv
		mk := "metricmin." + md.name
		mn, ok := st.ghost[mk]
		if !ok {
			mn = e.c64(0)
		}
		st.ghost[mk] = e.tm.Ite(e.tm.Slt(nv, mn.(*Term)), nv, mn.(*Term))
	case "Add", "Sub", "Set", "Observe", "SetToCurrentTime":
	case "Describe", "Collect":
	default:
		panic(unsupported("metric method " + method))
	}
	return one(st, nil)
}
