package main

// regexp.MatchString(pattern, s) for a concrete pattern and a symbolic ASCII string: the compiled
// program of the standard library (regexp/syntax) is simulated symbolically, position by
// position (Thompson/Pike construction), which yields a bit-vector formula for "some match
// exists" with Go's unanchored search semantics.  Exact for ASCII subjects up to the length bound.

import (
	"regexp/syntax"
	"sort"

	"golang.org/x/tools/go/ssa"
)

func init() {
	intrinsics["regexp.MatchString"] = inRegexpMatchString
}

func inRegexpMatchString(e *Engine, st *State, fn *ssa.Function, args []Value, site ssa.Instruction) []Outcome {
	pat, ok := argString(args[0])
	if !ok {
		panic(unsupported("regexp.MatchString with a symbolic pattern"))
	}
	s := args[1].(*StrV)
	re, err := syntax.Parse(pat, syntax.Perl)
	if err != nil {
		return one(st, &TupleV{[]Value{e.tm.False, e.newOpaqueError(err.Error(), nil, nil, e.mkStr(err.Error()))}})
	}
	prog, err := syntax.Compile(re.Simplify())
	if err != nil {
		return one(st, &TupleV{[]Value{e.tm.False, e.newOpaqueError(err.Error(), nil, nil, e.mkStr(err.Error()))}})
	}
	n := e.strBoundOrFail(s)
	if n > e.bound("regex_len", 40) {
		panic(unsupported("regexp subject longer than the regex_len bound"))
	}
	e.note("regexp.MatchString simulated symbolically (ASCII subject, bounded length)")
	return one(st, &TupleV{[]Value{e.regexMatch(prog, s, n), &IfaceV{}}})
}

// asciiSet returns the condition "byte b is matched by inst" (inst is a rune instruction).
func (e *Engine) runeCond(inst *syntax.Inst, b *Term) *Term {
	tm := e.tm
	var ds []*Term
	start := -1
	flush := func(end int) {
		if start >= 0 {
			if start == end {
				ds = append(ds, tm.Eq(b, tm.BV(uint64(start), 8)))
			} else {
				ds = append(ds, tm.And(tm.Ule(tm.BV(uint64(start), 8), b), tm.Ule(b, tm.BV(uint64(end), 8))))
			}
			start = -1
		}
	}
	for c := 0; c < 128; c++ {
		if inst.MatchRune(rune(c)) {
			if start < 0 {
				start = c
			}
		} else {
			flush(c - 1)
		}
	}
	flush(127)
	return tm.Or(ds...)
}

func (e *Engine) isWordByte(b *Term) *Term {
	tm := e.tm
	in := func(lo, hi byte) *Term {
		return tm.And(tm.Ule(tm.BV(uint64(lo), 8), b), tm.Ule(b, tm.BV(uint64(hi), 8)))
	}
	return tm.Or(in('a', 'z'), in('A', 'Z'), in('0', '9'), tm.Eq(b, tm.BV('_', 8)))
}

func (e *Engine) regexMatch(prog *syntax.Prog, s *StrV, n int) *Term {
	tm := e.tm
	byteAt := func(i int) *Term { return e.arrRead(s.arr, tm.Add(s.off, e.c64(uint64(i)))) }
	// emptyCond(i, op): the zero-width assertion holds at position i
	emptyCond := func(i int, op syntax.EmptyOp) *Term {
		pos := e.c64(uint64(i))
		atEnd := tm.Eq(pos, s.len)
		hasCur := tm.Ult(pos, s.len)
		c := tm.True
		if op&syntax.EmptyBeginText != 0 {
			c = tm.And(c, tm.Bool(i == 0))
		}
		if op&syntax.EmptyBeginLine != 0 {
			if i > 0 {
				c = tm.And(c, tm.Eq(byteAt(i-1), tm.BV('\n', 8)))
			}
		}
		if op&syntax.EmptyEndText != 0 {
			c = tm.And(c, atEnd)
		}
		if op&syntax.EmptyEndLine != 0 {
			c = tm.And(c, tm.Or(atEnd, tm.And(hasCur, tm.Eq(byteAt(i), tm.BV('\n', 8)))))
		}
		if op&(syntax.EmptyWordBoundary|syntax.EmptyNoWordBoundary) != 0 {
			prevW := tm.False
			if i > 0 {
				prevW = e.isWordByte(byteAt(i - 1))
			}
			curW := tm.And(hasCur, e.isWordByte(byteAt(i)))
			boundary := tm.Ne(prevW, curW)
			if op&syntax.EmptyWordBoundary != 0 {
				c = tm.And(c, boundary)
			}
			if op&syntax.EmptyNoWordBoundary != 0 {
				c = tm.And(c, tm.Not(boundary))
			}
		}
		return c
	}
	matched := tm.False
	// seeds for position i: pc -> condition
	seeds := map[int]*Term{}
	for i := 0; i <= n; i++ {
		pos := e.c64(uint64(i))
		inRange := tm.Ule(pos, s.len)
		// unanchored search: a new thread starts at every position
		if c, ok := seeds[prog.Start]; ok {
			seeds[prog.Start] = tm.Or(c, inRange)
		} else {
			seeds[prog.Start] = inRange
		}
		// epsilon closure with accumulated conditions
		reach := map[int]*Term{}
		var work []int
		add := func(pc int, c *Term) {
			if c.IsFalse() {
				return
			}
			old, ok := reach[pc]
			if !ok {
				reach[pc] = c
				work = append(work, pc)
				return
			}
			nc := tm.Or(old, c)
			if nc != old {
				reach[pc] = nc
				work = append(work, pc)
			}
		}
		for _, pc := range sortedIntKeys(seeds) {
			add(pc, seeds[pc])
		}
		consuming := map[int]*Term{}
		guard := 0
		for len(work) > 0 {
			guard++
			if guard > 100000 {
				panic(unsupported("regexp closure does not converge"))
			}
			pc := work[len(work)-1]
			work = work[:len(work)-1]
			c := reach[pc]
			inst := &prog.Inst[pc]
			switch inst.Op {
			case syntax.InstAlt, syntax.InstAltMatch:
				add(int(inst.Out), c)
				add(int(inst.Arg), c)
			case syntax.InstCapture, syntax.InstNop:
				add(int(inst.Out), c)
			case syntax.InstEmptyWidth:
				add(int(inst.Out), tm.And(c, emptyCond(i, syntax.EmptyOp(inst.Arg))))
			case syntax.InstMatch:
				matched = tm.Or(matched, c)
			case syntax.InstFail:
			default:
				consuming[pc] = c
			}
		}
		// consume byte i
		seeds = map[int]*Term{}
		if i == n {
			break
		}
		hasCur := tm.Ult(pos, s.len)
		b := byteAt(i)
		for _, pc := range sortedIntKeys(consuming) {
			c := reach[pc]
			inst := &prog.Inst[pc]
			var m *Term
			switch inst.Op {
			case syntax.InstRuneAny:
				m = tm.True
			case syntax.InstRuneAnyNotNL:
				m = tm.Ne(b, tm.BV('\n', 8))
			default:
				m = e.runeCond(inst, b)
			}
			nc := tm.And(c, hasCur, m)
			if nc.IsFalse() {
				continue
			}
			if old, ok := seeds[int(inst.Out)]; ok {
				seeds[int(inst.Out)] = tm.Or(old, nc)
			} else {
				seeds[int(inst.Out)] = nc
			}
		}
	}
	return matched
}

func sortedIntKeys(m map[int]*Term) []int {
	ks := make([]int, 0, len(m))
	for k := range m {
		ks = append(ks, k)
	}
	sort.Ints(ks)
	return ks
}

// ---------------------------------------------------------------------------------------------
// Compiled expressions: regexp.Compile / MustCompile give an opaque handle carrying the concrete
// pattern; (*Regexp).MatchString uses the simulation above, (*Regexp).FindStringIndex a symbolic
// version of the library's backtracker (leftmost start, then first alternative in priority
// order; a (pc, position) pair is explored once, like the visited bitmap of regexp/backtrack.go).

type regexHandle struct {
	pattern string
	prog    *syntax.Prog
}

func init() {
	intrinsics["regexp.Compile"] = inRegexpCompile
	intrinsics["regexp.MustCompile"] = inRegexpMustCompile
	intrinsics["(*regexp.Regexp).MatchString"] = inRegexpMethodMatch
	intrinsics["(*regexp.Regexp).FindStringIndex"] = inRegexpFindStringIndex
	intrinsics["(*regexp.Regexp).String"] = func(e *Engine, st *State, fn *ssa.Function, a []Value, s ssa.Instruction) []Outcome {
		return one(st, e.mkStr(a[0].(*OpaqueV).data.(*regexHandle).pattern))
	}
}

func (e *Engine) compileRegex(args []Value) (*regexHandle, error) {
	pat, ok := argString(args[0])
	if !ok {
		panic(unsupported("regexp.Compile with a symbolic pattern"))
	}
	re, err := syntax.Parse(pat, syntax.Perl)
	if err != nil {
		return nil, err
	}
	prog, err := syntax.Compile(re.Simplify())
	if err != nil {
		return nil, err
	}
	return &regexHandle{pat, prog}, nil
}

func inRegexpCompile(e *Engine, st *State, fn *ssa.Function, args []Value, site ssa.Instruction) []Outcome {
	h, err := e.compileRegex(args)
	if err != nil {
		return one(st, &TupleV{[]Value{&PtrV{}, e.newOpaqueError(err.Error(), nil, nil, e.mkStr(err.Error()))}})
	}
	e.nextOpq++
	return one(st, &TupleV{[]Value{&OpaqueV{kind: "regexp", id: e.nextOpq, data: h}, &IfaceV{}}})
}

func inRegexpMustCompile(e *Engine, st *State, fn *ssa.Function, args []Value, site ssa.Instruction) []Outcome {
	h, err := e.compileRegex(args)
	if err != nil {
		panic(unsupported("regexp.MustCompile panics: " + err.Error()))
	}
	e.nextOpq++
	return one(st, &OpaqueV{kind: "regexp", id: e.nextOpq, data: h})
}

func (e *Engine) regexArgs(args []Value) (*regexHandle, *StrV, int) {
	o, ok := args[0].(*OpaqueV)
	if !ok || o.kind != "regexp" {
		panic(unsupported("method call on an unknown *regexp.Regexp"))
	}
	s := args[1].(*StrV)
	n := e.strBoundOrFail(s)
	if n > e.bound("regex_len", 40) {
		panic(unsupported("regexp subject longer than the regex_len bound"))
	}
	return o.data.(*regexHandle), s, n
}

func inRegexpMethodMatch(e *Engine, st *State, fn *ssa.Function, args []Value, site ssa.Instruction) []Outcome {
	h, s, n := e.regexArgs(args)
	e.note("regexp.MatchString simulated symbolically (ASCII subject, bounded length)")
	return one(st, e.regexMatch(h.prog, s, n))
}

// regexEmpty: the zero-width assertion op holds at position i of s.
func (e *Engine) regexEmpty(s *StrV, i int, op syntax.EmptyOp) *Term {
	tm := e.tm
	byteAt := func(i int) *Term { return e.arrRead(s.arr, tm.Add(s.off, e.c64(uint64(i)))) }
	pos := e.c64(uint64(i))
	atEnd := tm.Eq(pos, s.len)
	hasCur := tm.Ult(pos, s.len)
	c := tm.True
	if op&syntax.EmptyBeginText != 0 {
		c = tm.And(c, tm.Bool(i == 0))
	}
	if op&syntax.EmptyBeginLine != 0 && i > 0 {
		c = tm.And(c, tm.Eq(byteAt(i-1), tm.BV('\n', 8)))
	}
	if op&syntax.EmptyEndText != 0 {
		c = tm.And(c, atEnd)
	}
	if op&syntax.EmptyEndLine != 0 {
		c = tm.And(c, tm.Or(atEnd, tm.And(hasCur, tm.Eq(byteAt(i), tm.BV('\n', 8)))))
	}
	if op&(syntax.EmptyWordBoundary|syntax.EmptyNoWordBoundary) != 0 {
		prevW := tm.False
		if i > 0 {
			prevW = e.isWordByte(byteAt(i - 1))
		}
		curW := tm.And(hasCur, e.isWordByte(byteAt(i)))
		boundary := tm.Ne(prevW, curW)
		if op&syntax.EmptyWordBoundary != 0 {
			c = tm.And(c, boundary)
		}
		if op&syntax.EmptyNoWordBoundary != 0 {
			c = tm.And(c, tm.Not(boundary))
		}
	}
	return c
}

type btRes struct {
	found *Term
	end   *Term
}

// regexFind: (found, start, end) of the leftmost-first match of prog in s (length bound n).
func (e *Engine) regexFind(prog *syntax.Prog, s *StrV, n int) (*Term, *Term, *Term) {
	tm := e.tm
	type key struct{ pc, i int }
	memo := map[key]*btRes{}
	fail := &btRes{tm.False, e.c64(0)}
	var bt func(pc, i int) *btRes
	bt = func(pc, i int) *btRes {
		k := key{pc, i}
		if r, ok := memo[k]; ok {
			return r // also the "being explored" marker: an empty loop is not entered twice
		}
		memo[k] = fail
		inst := &prog.Inst[pc]
		var r *btRes
		switch inst.Op {
		case syntax.InstAlt, syntax.InstAltMatch:
			r1 := bt(int(inst.Out), i)
			r2 := bt(int(inst.Arg), i)
			r = &btRes{tm.Or(r1.found, r2.found), tm.Ite(r1.found, r1.end, r2.end)}
		case syntax.InstCapture, syntax.InstNop:
			r = bt(int(inst.Out), i)
		case syntax.InstEmptyWidth:
			c := e.regexEmpty(s, i, syntax.EmptyOp(inst.Arg))
			r1 := bt(int(inst.Out), i)
			r = &btRes{tm.And(c, r1.found), r1.end}
		case syntax.InstMatch:
			r = &btRes{tm.True, e.c64(uint64(i))}
		case syntax.InstFail:
			r = fail
		default:
			if i >= n {
				r = fail
				break
			}
			b := e.arrRead(s.arr, tm.Add(s.off, e.c64(uint64(i))))
			var m *Term
			switch inst.Op {
			case syntax.InstRuneAny:
				m = tm.True
			case syntax.InstRuneAnyNotNL:
				m = tm.Ne(b, tm.BV('\n', 8))
			default:
				m = e.runeCond(inst, b)
			}
			m = tm.And(m, tm.Ult(e.c64(uint64(i)), s.len))
			if m.IsFalse() {
				r = fail
				break
			}
			r1 := bt(int(inst.Out), i+1)
			r = &btRes{tm.And(m, r1.found), r1.end}
		}
		memo[k] = r
		return r
	}
	found, start, end := tm.False, e.c64(0), e.c64(0)
	for st := n; st >= 0; st-- {
		r := bt(prog.Start, st)
		here := tm.And(tm.Ule(e.c64(uint64(st)), s.len), r.found)
		found = tm.Or(here, found)
		start = tm.Ite(here, e.c64(uint64(st)), start)
		end = tm.Ite(here, r.end, end)
	}
	return found, start, end
}

func inRegexpFindStringIndex(e *Engine, st *State, fn *ssa.Function, args []Value, site ssa.Instruction) []Outcome {
	h, s, n := e.regexArgs(args)
	e.note("regexp.FindStringIndex: symbolic backtracker (leftmost-first, ASCII subject, bounded length)")
	found, start, end := e.regexFind(h.prog, s, n)
	var outs []Outcome
	if e.feasible(st, found) {
		s2 := st.clone()
		s2.assume(found)
		o := e.newObject("loc", nil)
		s2.mem.set(o, &CellsV{[]Value{start, end}})
		outs = append(outs, Outcome{st: s2, ret: &SliceV{obj: o, off: e.c64(0), len: e.c64(2), cap: e.c64(2), max: 2}})
	}
	if e.feasible(st, e.tm.Not(found)) {
		st.assume(e.tm.Not(found))
		outs = append(outs, Outcome{st: st, ret: &SliceV{off: e.c64(0), len: e.c64(0), cap: e.c64(0)}})
	}
	return outs
}
