package main

// regexp.MatchString(pattern, s) for a concrete pattern and a symbolic ASCII string: the compiled
// program of the standard library (regexp/syntax) is simulated symbolically, position by
// position (Thompson/Pike construction), which yields a bit-vector formula for "some match
// exists" with Go's unanchored search semantics.  Exact for ASCII subjects up to the length bound.

import (
	"regexp/syntax"
	"sort"

	"golang.org/x/tools/go/ssa"
)

func init() {
	intrinsics["regexp.MatchString"] = inRegexpMatchString
}

func inRegexpMatchString(e *Engine, st *State, fn *ssa.Function, args []Value, site ssa.Instruction) []Outcome {
	pat, ok := argString(args[0])
	if !ok {
		panic(unsupported("regexp.MatchString with a symbolic pattern"))
	}
	s := args[1].(*StrV)
	re, err := syntax.Parse(pat, syntax.Perl)
	if err != nil {
		return one(st, &TupleV{[]Value{e.tm.False, e.newOpaqueError(err.Error(), nil, nil, e.mkStr(err.Error()))}})
	}
	prog, err := syntax.Compile(re.Simplify())
	if err != nil {
		return one(st, &TupleV{[]Value{e.tm.False, e.newOpaqueError(err.Error(), nil, nil, e.mkStr(err.Error()))}})
	}
	n := e.strBoundOrFail(s)
	if n > e.bound("regex_len", 40) {
		panic(unsupported("regexp subject longer than the regex_len bound"))
	}
	e.note("regexp.MatchString simulated symbolically (ASCII subject, bounded length)")
	return one(st, &TupleV{[]Value{e.regexMatch(prog, s, n), &IfaceV{}}})
}

// asciiSet returns the condition "byte b is matched by inst" (inst is a rune instruction).
func (e *Engine) runeCond(inst *syntax.Inst, b *Term) *Term {
	tm := e.tm
	var ds []*Term
	start := -1
	flush := func(end int) {
		if start >= 0 {
			if start == end {
				ds = append(ds, tm.Eq(b, tm.BV(uint64(start), 8)))
			} else {
				ds = append(ds, tm.And(tm.Ule(tm.BV(uint64(start), 8), b), tm.Ule(b, tm.BV(uint64(end), 8))))
			}
			start = -1
		}
	}
	for c := 0; c < 128; c++ {
		if inst.MatchRune(rune(c)) {
			if start < 0 {
				start = c
			}
		} else {
			flush(c - 1)
		}
	}
	flush(127)
	return tm.Or(ds...)
}

func (e *Engine) isWordByte(b *Term) *Term {
	tm := e.tm
	in := func(lo, hi byte) *Term {
		return tm.And(tm.Ule(tm.BV(uint64(lo), 8), b), tm.Ule(b, tm.BV(uint64(hi), 8)))
	}
	return tm.Or(in('a', 'z'), in('A', 'Z'), in('0', '9'), tm.Eq(b, tm.BV('_', 8)))
}

func (e *Engine) regexMatch(prog *syntax.Prog, s *StrV, n int) *Term {
	tm := e.tm
	byteAt := func(i int) *Term { return e.arrRead(s.arr, tm.Add(s.off, e.c64(uint64(i)))) }
	// emptyCond(i, op): the zero-width assertion holds at position i
	emptyCond := func(i int, op syntax.EmptyOp) *Term {
		pos := e.c64(uint64(i))
		atEnd := tm.Eq(pos, s.len)
		hasCur := tm.Ult(pos, s.len)
		c := tm.True
		if op&syntax.EmptyBeginText != 0 {
			c = tm.And(c, tm.Bool(i == 0))
		}
		if op&syntax.EmptyBeginLine != 0 {
			if i > 0 {
				c = tm.And(c, tm.Eq(byteAt(i-1), tm.BV('\n', 8)))
			}
		}
		if op&syntax.EmptyEndText != 0 {
			c = tm.And(c, atEnd)
		}
		if op&syntax.EmptyEndLine != 0 {
			c = tm.And(c, tm.Or(atEnd, tm.And(hasCur, tm.Eq(byteAt(i), tm.BV('\n', 8)))))
		}
		if op&(syntax.EmptyWordBoundary|syntax.EmptyNoWordBoundary) != 0 {
			prevW := tm.False
			if i > 0 {
				prevW = e.isWordByte(byteAt(i - 1))
			}
			curW := tm.And(hasCur, e.isWordByte(byteAt(i)))
			boundary := tm.Ne(prevW, curW)
			if op&syntax.EmptyWordBoundary != 0 {
				c = tm.And(c, boundary)
			}
			if op&syntax.EmptyNoWordBoundary != 0 {
				c = tm.And(c, tm.Not(boundary))
			}
		}
		return c
	}
	matched := tm.False
	// seeds for position i: pc -> condition
	seeds := map[int]*Term{}
	for i := 0; i <= n; i++ {
		pos := e.c64(uint64(i))
		inRange := tm.Ule(pos, s.len)
		// unanchored search: a new thread starts at every position
		if c, ok := seeds[prog.Start]; ok {
			seeds[prog.Start] = tm.Or(c, inRange)
		} else {
			seeds[prog.Start] = inRange
		}
		// epsilon closure with accumulated conditions
		reach := map[int]*Term{}
		var work []int
		add := func(pc int, c *Term) {
			if c.IsFalse() {
				return
			}
			old, ok := reach[pc]
			if !ok {
				reach[pc] = c
				work = append(work, pc)
				return
			}
			nc := tm.Or(old, c)
			if nc != old {
				reach[pc] = nc
				work = append(work, pc)
			}
		}
		for _, pc := range sortedIntKeys(seeds) {
			add(pc, seeds[pc])
		}
		consuming := map[int]*Term{}
		guard := 0
		for len(work) > 0 {
			guard++
			if guard > 100000 {
				panic(unsupported("regexp closure does not converge"))
			}
			pc := work[len(work)-1]
			work = work[:len(work)-1]
			c := reach[pc]
			inst := &prog.Inst[pc]
			switch inst.Op {
			case syntax.InstAlt, syntax.InstAltMatch:
				add(int(inst.Out), c)
				add(int(inst.Arg), c)
			case syntax.InstCapture, syntax.InstNop:
				add(int(inst.Out), c)
			case syntax.InstEmptyWidth:
				add(int(inst.Out), tm.And(c, emptyCond(i, syntax.EmptyOp(inst.Arg))))
			case syntax.InstMatch:
				matched = tm.Or(matched, c)
			case syntax.InstFail:
			default:
				consuming[pc] = c
			}
		}
		// consume byte i
		seeds = map[int]*Term{}
		if i == n {
			break
		}
		hasCur := tm.Ult(pos, s.len)
		b := byteAt(i)
		for _, pc := range sortedIntKeys(consuming) {
			c := reach[pc]
			inst := &prog.Inst[pc]
			var m *Term
			switch inst.Op {
			case syntax.InstRuneAny:
				m = tm.True
			case syntax.InstRuneAnyNotNL:
				m = tm.Ne(b, tm.BV('\n', 8))
			default:
				m = e.runeCond(inst, b)
			}
			nc := tm.And(c, hasCur, m)
			if nc.IsFalse() {
				continue
			}
			if old, ok := seeds[int(inst.Out)]; ok {
				seeds[int(inst.Out)] = tm.Or(old, nc)
			} else {
				seeds[int(inst.Out)] = nc
			}
		}
	}
	return matched
}

func sortedIntKeys(m map[int]*Term) []int {
	ks := make([]int, 0, len(m))
	for k := range m {
		ks = append(ks, k)
	}
	sort.Ints(ks)
	return ks
}
